#!/usr/bin/env python3
"""Fill needs_to_manifest in seeded/*/meta.json from the author's notes and print the kill matrix."""
import json, glob, os, re
rows = []
for d in sorted(glob.glob("/verif/seeded/*/")):
    m = json.load(open(d + "meta.json"))
    notes = open(d + "notes.md").read()
    body = re.split(r"\n\s*[-*]?\s*\**Commands", notes)[0].strip()
    title = notes.strip().splitlines()[0].lstrip("# ").strip()
    m["title"] = title
    m["needs_to_manifest"] = body
    json.dump(m, open(d + "meta.json", "w"), indent=1)
    first = m["earlier_runs"][0].get("detected_by") if m.get("earlier_runs") else m["detected_by"]
    r = m["checks_run_against_it"].get(m["breaks_property"], {})
    why = (r.get("reason") or [""])[0]
    rows.append((m["id"], title, ",".join(first) if first else "missed", ",".join(m["detected_by"]) or "missed", why[:110]))
print("| id | change | first run (quick) | now (quick) |")
print("|----|--------|-------------------|-------------|")
for r in rows:
    t = re.sub(r"^C\d+ mutant \d+\s*[-–—:]*\s*", "", r[1])
    print("| %s | %s | %s | %s |" % (r[0], t.replace("|", "/")[:100], r[2], r[3]))
