#!/usr/bin/env python3
"""Regenerate /verif/MANIFEST.json from the table below and validate it.

usage: tools/mkmanifest.py            (writes MANIFEST.json, validates manifest + evidence files)
"""
import json, os, sys, glob

HERE = os.path.dirname(os.path.dirname(os.path.abspath(__file__)))

# id -> (design section, technique, level text, level note, engine)
CHECKS = {
    "C01": ("DESIGN.md section 4 / C01",
            "property-based differential testing against a reference model (M-dewey), correlated pair generator, shrinking; thorough tier adds a coverage-guided libFuzzer campaign on the same oracle",
            "Generated-input search: every generated version pair is judged for all four operators, both directions, through Pattern, Dewey and best_match against an independent model of pkg_install's dewey rule. Every pair is also asked through the four range patterns with the same bound on both sides. Exploration of a token grammar (usually <= 12 tokens, numbers up to i64::MAX, occasionally a shared prefix of up to 1300 components; tokens also from real pkgsrc versions and from the library's own literals); absence of defects is not established.",
            "Trusts the reference model M-dewey (written from the property statement, self-checked at start) and proptest's generators; known finding KF-1 region is judged leniently and counted.",
            "pbt"),
    "C02": ("DESIGN.md section 4 / C02",
            "property-based differential testing against reference model M-dewey-pattern, random stream plus complete enumeration of a finite product space; thorough tier adds a coverage-guided libFuzzer campaign on the same oracle",
            "Generated-input search: (pattern, name) pairs over bases x 0-3 operators x bounds x base relations x versions are compiled and matched through Dewey and Pattern and compared with an independent compile/match model; the product space is also enumerated completely (quick: reduced pools, thorough: full pools); a free-form stream takes bases from the library's own literals and bounds / versions from the free version-token generator (same bound twice, a bound edited into the version, very long bounds, the pattern's own text as the candidate).",
            "Trusts M-dewey-pattern / M-dewey (self-checked); pool versions and bounds are letter-free so KF-1 cannot interfere, the free-form and realistic streams judge the KF-1 region leniently as C01 does.",
            "pbt"),
    "C03": ("DESIGN.md section 4 / C03",
            "property-based testing of algebraic laws (total preorder, operator duality/converse, two-bound conjunction) on correlated triples, shrinking; thorough tier adds a coverage-guided libFuzzer campaign on the same oracle",
            "Generated-input search: the order laws are checked on the library's own verdicts for correlated triples over arbitrary text (incl. non-ASCII, control characters, 19-40 digit runs, 200-character strings), all 27 index triples and all role assignments of two-bound patterns.",
            "No reference model; assumes only that Pattern::new/matches is the comparison the property talks about.",
            "pbt"),
    "C04": ("DESIGN.md section 4 / C04",
            "grammar-based property testing against a csh brace expander (M-brace) with decoy names from deliberately wrong expanders, shrinking; thorough tier adds a coverage-guided libFuzzer campaign on the same oracle",
            "Generated-input search: brace patterns from the csh grammar (bounded groups/expansions) with instance, decoy and mutant names; compile verdict vs balanced(), match verdict vs union over the model's expansions.",
            "Trusts M-brace (self-checked); brace-free expansions are judged by the library itself as the statement prescribes (checked independently by C02/C05).",
            "pbt"),
    "C05": ("DESIGN.md section 4 / C05",
            "grammar-based property testing against an own shell-glob matcher (M-glob) and the identical-string rule, instance + mutation name generator; thorough tier adds a coverage-guided libFuzzer campaign on the same oracle",
            "Generated-input search: glob/plain patterns of the pkgsrc subset against instances and one-step mutations concentrated on the first two characters (where the fast-reject looks), short and empty names; set members include ^ ! ] [ \\ * ?, a stream holds the syntax of other glob dialects (POSIX classes, '^' negation, backslash escapes), words of the library's own literals appear as glob literals and name affixes; malformed globs must be rejected.",
            "Trusts M-glob (self-checked; a ']' directly after '[' or '[!' is a set member as in every shell); names with leading '.' or '/' and '**' are outside the generated subset.",
            "pbt"),
    "C06": ("DESIGN.md section 4 / C06",
            "property-based model comparison (M-dewey winner) plus metamorphic relations over permutations and association trees of pairwise reduction; thorough tier adds a coverage-guided libFuzzer campaign on the same oracle",
            "Generated-input search over patterns of every kind and candidate lists rich in version ties: pairwise results vs model, argument-order symmetry, and 18 fold orders per list; a second stream checks self-consistency on arbitrary patterns/names.",
            "Trusts M-dewey for the winner (letter-free versions); arbitrary stream uses no model.",
            "pbt"),
    "C07": ("DESIGN.md section 4 / C07",
            "property-based round-trip and history-independence testing (metamorphic over call histories) against reference model M-summary",
            "Generated-input search over call histories: an assignment of values is realised by two independent interleaved set_*/push_* histories with queries in between (is_completed after every call, Display after every fifth, a clone taken half-way and read after the original moved on); printed form must equal the model's canonical form for both, parse back to the same 23 values, and re-print byte-identically.",
            "Trusts M-summary.print/apply (self-checked); values without CR/LF and non-empty lists only.",
            "pbt"),
    "C08": ("DESIGN.md section 4 / C08",
            "property-based differential testing with fault injection against M-summary.parse; enumeration of all single and double removals of required variables and of all 2^11 API subsets; thorough tier adds a coverage-guided libFuzzer campaign on the same oracle",
            "Generated-input search with injected faults: acceptance must coincide with the model and the reported error must be a cause actually present (exact when there is one cause); is_completed() is enumerated over every subset of the required variables, and every name at edit distance one from a supported variable name (12 212 names) is enumerated as an extra line of a complete entry.",
            "Trusts M-summary.parse/causes (self-checked); with several simultaneous causes any one is accepted.",
            "pbt"),
    "C09": ("DESIGN.md section 4 / C09",
            "property-based metamorphic testing over chunk partitions (enumerated single cuts, pairs, fixed sizes, random) with fault injection of one malformed entry; thorough tier adds a coverage-guided libFuzzer campaign on the same oracle",
            "Generated-input search over (stream, partition): every enumerated partition of each short stream (single cuts, all pairs of cuts up to 240 bytes, fixed chunk sizes, random partitions, zero-length writes at line ends) and one generated partition of each long stream (20-70 entries, chunk sizes up to 8192) must give the same entries as the one-call write and the model; for a malformed entry the failing write, its error kind and the entries collected so far are checked for every partition.",
            "Trusts M-summary for the expected entries; doubled blank lines (empty entries) are outside the generated domain.",
            "pbt"),
    "C10": ("DESIGN.md section 4 / C10",
            "property-based round-trip testing (parse->write identity on canonical files, API->write->parse) against reference model M-distinfo, byte-level name generator",
            "Generated-input search: canonical distinfo files with names over arbitrary non-whitespace bytes (weighted to >= 0x80, C3 A0 / C3 85 / lone E9 / A0 / 85 / FF; leading './', doubled / leading / trailing '/', names that are a prefix or suffix of another name, components from the library's own literals) must survive parse->write byte for byte; API-assembled documents must write the canonical layout and parse back to the same values.",
            "Trusts M-distinfo.print/classify (self-checked); names whose basename and whole name classify differently are outside the domain.",
            "pbt"),
    "C11": ("DESIGN.md section 4 / C11",
            "property-based differential testing against the line-level model M-distinfo over interleaved well-formed lines mixed with injected noise lines; thorough tier adds a coverage-guided libFuzzer campaign on the same oracle",
            "Generated-input search: shuffled checksum/size lines of 1-5 files with varying blanks (also runs of a chosen length up to 40), leading blanks, a chosen number (0-400) of trailing tokens and algorithm case, mixed with comments, unknown algorithms, bad sizes, garbage and truncated lines; the parsed maps must equal the model's (order, checksums, sizes, patch/distfile split) and contain nothing else.",
            "Trusts M-distinfo.parse (self-checked); lines that a liberal parser may accept (wrong separator instead of '=') are outside the domain.",
            "pbt"),
    "C12": ("DESIGN.md section 4 / C12",
            "property-based testing with injected corruptions against independent digest implementations (M-hash) on real scratch files",
            "Generated-input search: for generated file contents and recorded entries (correct or with single-byte / single-digit / length corruptions, exchanged digits, two cancelling bit changes, the reversed hash; decoys sharing a path tail, recorded names that are textual but not path suffixes of the file name) every verification entry point is compared with the model for all six algorithms, including the payload of the errors.",
            "Trusts M-hash (six algorithms re-implemented from their specifications, test vectors checked at start) and the scratch file system.",
            "pbt"),
    "C13": ("DESIGN.md section 4 / C13",
            "property-based differential testing against M-hash over generated inputs x generated read schedules with injected Interrupted and hard I/O errors; enumeration of name case variants; thorough tier adds a coverage-guided libFuzzer campaign on the same oracle",
            "Generated-input search over (bytes, read schedule): lengths at block boundaries, patch texts with markers at the buffer edge, 1-byte / short / large reads, Interrupted at any point (also bursts of a chosen number, 0-300, in a row), one hard error (12 kinds) at any read before EOF; digests must equal independent implementations of the six standards, errors must be returned.",
            "Trusts M-hash (test vectors at start, cross-checked against Python hashlib during development).",
            "pbt"),
    "C14": ("DESIGN.md section 4 / C14",
            "property-based differential testing against a line-level reference model (M-plist) over generated byte documents, shrinking; thorough tier adds a coverage-guided libFuzzer campaign on the same oracle",
            "Generated-input search: documents of generated lines (one- and two-byte file names, every command with every argument shape, unknown commands, blank lines also of a chosen length up to 700, multi-byte characters cut short, words of the library's own literals, raw bytes) are parsed and compared line by line and as a whole entry list with an independent model. Exploration of documents of usually <= 30 lines (one in fifty 100-400 lines).",
            "Trusts M-plist (written from the statement, self-checked) and the derived Debug rendering of Plist as a faithful view of its private entry list; bytes 0x85/0xA0/VT/FF/CR in white-space-sensitive positions are outside the generated domain.",
            "pbt"),
    "C15": ("DESIGN.md section 4 / C15",
            "property-based differential testing of all twelve query views against M-plist views over generated entry sequences, plus metamorphic cross-checks between views",
            "Generated-input search over entry sequences weighted towards @ignore / @cwd interplay; every view is compared with an independent computation from the sequence and the four file views are cross-checked against each other.",
            "Trusts M-plist views (self-checked) and C14 for the text <-> sequence correspondence.",
            "pbt"),
    "C16": ("DESIGN.md section 4 / C16",
            "property-based differential testing against M-scan with read schedules and fault injection (content faults; hard I/O error enumerated at every read call); thorough tier adds a coverage-guided libFuzzer campaign on the same oracle",
            "Generated-input search over multi-record inputs x chunked readers; every public field of every record is compared with the model; faults (orphan block, bad dependency, bad location, I/O error of six kinds at each read) must fail the read as a whole; unknown keys include identifiers of the library's own literals with values that would matter.",
            "Trusts M-scan; dependency items / locations come from fixed valid and invalid pools (C19 decides their validity).",
            "pbt"),
    "C17": ("DESIGN.md section 4 / C17",
            "robustness fuzzing with proptest: arbitrary bytes, grammar-derived documents and mutations of valid documents at eleven byte-level targets covering every public entry point, panic capture and a watchdog; call-sequence interpreter for Summary; thorough tier adds a coverage-guided libFuzzer campaign on the same oracle",
            "Generated-input search for panics and hangs: every entry point that takes external text or bytes is driven with arbitrary, grammar-derived and mutated inputs (<= 4 KiB); mutations include a short token repeated a chosen number (0-700) of times and tokens of the library's own literals, stream writes include zero-length writes; a panic is caught and reported with message and location, a case exceeding the 20 s watchdog is confirmed in isolation before it counts.",
            "Inputs above 4 KiB, brace patterns above 1024 expansions (cost exponential by specification) and unreadable directories are not explored; time is a signal only through the watchdog with in-isolation confirmation.",
            "pbt"),
    "C18": ("DESIGN.md section 4 / C18",
            "property-based testing with an inverse (split/rebuild) oracle and metamorphic probes of the revision through the comparison operators; thorough tier adds a coverage-guided libFuzzer campaign on the same oracle",
            "Generated-input search over package-name strings (many '-', 'nb' in base / repeated / with up to 18 digits, parts from the library's own literals, versions of a chosen number - up to 1300 - of components); the reported revision is cross-examined through >=, <=, >, < patterns, and the pkg_summary accessors are compared.",
            "Assumes Pattern comparison is the 'version comparison' of the statement (checked by C01).",
            "pbt"),
    "C19": ("DESIGN.md section 4 / C19",
            "complete enumeration of a finite segment grammar (plus random strings and names of chosen lengths) against M-path; complete product of patterns x paths x colon layouts for Depend plus a random Depend stream; thorough tier adds a coverage-guided libFuzzer campaign on the same oracle",
            "Exhaustive over all segment sequences up to length 4 (thorough: 6) with/without leading and trailing '/', compared with an independent acceptance model, accessor/equality/re-parse laws; Depend decided by its definition from Pattern::new and PkgPath::new.",
            "Trusts M-path (self-checked); Depend oracle uses the library's own Pattern::new / PkgPath::new for the halves, as the statement prescribes.",
            "pbt"),
    "C20": ("DESIGN.md section 4 / C20",
            "property-based model comparison over generated directory trees (configurations) on a scratch file system; enumeration of file-name bijection; call sequences on Metadata",
            "Generated-input search over package database trees (complete / incomplete package directories, stray files, names with several or no '-' or built from the library's own literals; file contents with CR LF, NUL, BOM; the database directory opened under six spellings of its path); yielded packages, their split and all 14 metadata reads are compared with what was written.",
            "Trusts the scratch file system; unreadable directories are not explored (root).",
            "pbt"),
}

PENDING = {}  # id -> reason (properties not claimed)

def main():
    props = [json.loads(l) for l in open(os.path.join(HERE, "properties.jsonl"))]
    ids = [p["id"] for p in props]
    checks = []
    for pid in ids:
        if pid not in CHECKS:
            continue
        ref, tech, text, note, engine = CHECKS[pid]
        checks.append({
            "property_id": pid,
            "quick_cmd": "./check %s quick" % pid,
            "thorough_cmd": "./check %s thorough" % pid,
            "evidence_file": "/verif/evidence/%s.json" % pid,
            "replay_cmd_template": "./check replay {path}",
            "engine": engine,
            "level_claimed": {"category": "exploration", "text": text, "design_ref": ref},
            "level_note": note,
            "technique": tech,
        })
    na = []
    for pid in ids:
        if pid not in CHECKS:
            na.append({"property_id": pid,
                       "reason": PENDING.get(pid, "not claimed yet: the generated-input check for this property is still being built (see DESIGN.md section 9); the technique applies")})
    manifest = {
        "version": 1,
        "setup_cmd": "./setup.sh",
        "hooks": {
            "guard": "--cfg pkgsrc_verif",
            "enable": "none needed: every property is observed through the public API, /repo is built unmodified as a path dependency of /verif/harness",
            "baseline_off_cmd": "cd /repo && cargo test --workspace --no-fail-fast --offline",
            "source_commits": [],
            "add_only": True,
        },
        "engines": [
            {"name": "pbt", "path": "/verif/harness",
             "serves_properties": [c["property_id"] for c in checks],
             "kind_free_text": "stable-toolchain Rust harness (bin pv): seeded, sharded proptest TestRunner with shrinking, reference models, replay files, known-finding matcher, watchdog"},
            {"name": "libfuzzer", "path": "/verif/harness/fuzz",
             "serves_properties": ["C01", "C02", "C03", "C04", "C05", "C06", "C08", "C09", "C11", "C13", "C14", "C16", "C17", "C18", "C19"],
             "kind_free_text": "cargo-fuzz / libFuzzer targets (nightly) whose oracle is the same harness code (pkgsrc_verif::fuzz); run by the thorough tier only: 8 worker processes per target, fixed number of runs, fresh corpus seeded from the harness generators, artifacts confirmed through the stable replay path"},
        ],
        "checks": checks,
        "notes": "All checks: exit 0 held / 1 violation (VIOLATION line) / 2 inconclusive. VERIF_SEED selects the PRNG seed (default 1). ./check rebuilds the harness against /repo's working tree on every call. Known findings: known_findings.json (KF-1 for C01, KF-2 for C17). Replay files may carry a 'history' (cases that must run first on the same thread) for failures caused by state left behind by earlier calls. Sensitivity: 400 independently seeded changes (eleven rounds) under seeded/, re-run with tools/seed_rerun_all.py (seeded/RERUN.json). DESIGN.md section 10 is the authoritative description of what was built.",
        "not_applicable": na,
    }
    out = os.path.join(HERE, "MANIFEST.json")
    json.dump(manifest, open(out, "w"), indent=1)
    open(out, "a").write("\n")
    try:
        import jsonschema
        jsonschema.validate(manifest, json.load(open("/root/.vp/MANIFEST.schema.json")))
        es = json.load(open("/root/.vp/EVIDENCE.schema.json"))
        for f in sorted(glob.glob(os.path.join(HERE, "evidence", "*.json"))):
            jsonschema.validate(json.load(open(f)), es)
            print("evidence ok:", os.path.basename(f))
        print("manifest ok: %d checks, %d not claimed" % (len(checks), len(na)))
    except ImportError:
        print("jsonschema not available; wrote manifest unvalidated")

if __name__ == "__main__":
    main()
