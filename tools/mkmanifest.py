#!/usr/bin/env python3
"""Regenerate /verif/MANIFEST.json from the table below and validate it.

usage: tools/mkmanifest.py            (writes MANIFEST.json, validates manifest + evidence files)
"""
import json, os, sys, glob

HERE = os.path.dirname(os.path.dirname(os.path.abspath(__file__)))

# id -> (design section, technique, level text, level note, engine)
CHECKS = {
    "C01": ("DESIGN.md section 4 / C01",
            "property-based differential testing against a reference model (M-dewey), correlated pair generator, shrinking",
            "Generated-input search: every generated version pair is judged for all four operators, both directions, through Pattern, Dewey and best_match against an independent model of pkg_install's dewey rule. Exploration of a bounded token grammar (<= 12 tokens, <= 18-digit runs); absence of defects is not established.",
            "Trusts the reference model M-dewey (written from the property statement, self-checked at start) and proptest's generators; known finding KF-1 region is judged leniently and counted.",
            "pbt"),
}

PENDING = {}  # id -> reason (properties not claimed)

def main():
    props = [json.loads(l) for l in open(os.path.join(HERE, "properties.jsonl"))]
    ids = [p["id"] for p in props]
    checks = []
    for pid in ids:
        if pid not in CHECKS:
            continue
        ref, tech, text, note, engine = CHECKS[pid]
        checks.append({
            "property_id": pid,
            "quick_cmd": "./check %s quick" % pid,
            "thorough_cmd": "./check %s thorough" % pid,
            "evidence_file": "/verif/evidence/%s.json" % pid,
            "replay_cmd_template": "./check replay {path}",
            "engine": engine,
            "level_claimed": {"category": "exploration", "text": text, "design_ref": ref},
            "level_note": note,
            "technique": tech,
        })
    na = []
    for pid in ids:
        if pid not in CHECKS:
            na.append({"property_id": pid,
                       "reason": PENDING.get(pid, "not claimed yet: the generated-input check for this property is still being built (see DESIGN.md section 9); the technique applies")})
    manifest = {
        "version": 1,
        "setup_cmd": "./setup.sh",
        "hooks": {
            "guard": "--cfg pkgsrc_verif",
            "enable": "none needed: every property is observed through the public API, /repo is built unmodified as a path dependency of /verif/harness",
            "baseline_off_cmd": "cd /repo && cargo test --workspace --no-fail-fast --offline",
            "source_commits": [],
            "add_only": True,
        },
        "engines": [
            {"name": "pbt", "path": "/verif/harness",
             "serves_properties": [c["property_id"] for c in checks],
             "kind_free_text": "stable-toolchain Rust harness (bin pv): seeded, sharded proptest TestRunner with shrinking, reference models, replay files, known-finding matcher, watchdog"},
        ],
        "checks": checks,
        "notes": "All checks: exit 0 held / 1 violation (VIOLATION line) / 2 inconclusive. VERIF_SEED selects the PRNG seed (default 1). ./check rebuilds the harness against /repo's working tree on every call. Known findings: known_findings.json.",
        "not_applicable": na,
    }
    out = os.path.join(HERE, "MANIFEST.json")
    json.dump(manifest, open(out, "w"), indent=1)
    open(out, "a").write("\n")
    try:
        import jsonschema
        jsonschema.validate(manifest, json.load(open("/root/.vp/MANIFEST.schema.json")))
        es = json.load(open("/root/.vp/EVIDENCE.schema.json"))
        for f in sorted(glob.glob(os.path.join(HERE, "evidence", "*.json"))):
            jsonschema.validate(json.load(open(f)), es)
            print("evidence ok:", os.path.basename(f))
        print("manifest ok: %d checks, %d not claimed" % (len(checks), len(na)))
    except ImportError:
        print("jsonschema not available; wrote manifest unvalidated")

if __name__ == "__main__":
    main()
