#!/usr/bin/env python3
"""File the confirmed candidates of a seeding round under /verif/seeded/<id>/ from
   (a) /tmp/seedwork/PREFIX-Cxx/{mutantN.diff,demoN.rs,notesN.md,verifyN.json} (stage 1: tools/seed_verify.py)
   (b) the first-run result file written by `seed_rerun_all.py --candidates PREFIX --out FILE`.
   usage: seed_file.py PREFIX TAG ROUND FIRSTRUN.json "round kind text"
   A candidate whose stage 1 did not confirm all four conditions is not filed."""
import glob, json, os, shutil, sys
prefix, tag, rnd, first, kind = sys.argv[1:6]
fr = json.load(open(first))
for vf in sorted(glob.glob("/tmp/seedwork/%s-C*/verify*.json" % prefix)):
    ver = json.load(open(vf))
    d = os.path.dirname(vf)
    pid, n = ver["property"], str(ver["mutant"])
    if not ver.get("ok"):
        print("not filed (stage 1 rejected):", pid, n)
        continue
    r = fr["results"].get("%s-mutant%s" % (pid, n))
    if r is None:
        print("not filed (no first run):", pid, n)
        continue
    sid = "%s-%s%s" % (pid, tag, n)
    dst = "/verif/seeded/" + sid
    os.makedirs(dst, exist_ok=True)
    shutil.copy("%s/mutant%s.diff" % (d, n), dst + "/patch.diff")
    shutil.copy("%s/demo%s.rs" % (d, n), dst + "/demo.rs")
    shutil.copy("%s/notes%s.md" % (d, n), dst + "/notes.md")
    notes = open(dst + "/notes.md").read()
    det = [pid] if r.get("detected") else []
    meta = {
        "id": sid,
        "breaks_property": pid,
        "origin": "independent sub-agent given only the property text and a scratch worktree",
        "needs_to_manifest": notes[:1500],
        "confirmed_in_scratch_worktree": {
            "existing_suite_passes_with_change": ver["suite_passes_with_mutant"],
            "demonstration_fails_with_change": ver["demo_fails_with_mutant"],
            "demonstration_passes_without_change": ver["demo_passes_without_mutant"],
            "commands": ["git apply patch.diff", "cargo test --offline", "cp demo.rs tests/seed_demo.rs && cargo test --offline --test seed_demo", "git checkout -- src && cargo test --offline --test seed_demo"],
        },
        "checks_run_against_it": {pid: {"tier": "quick", "exit": r.get("exit"), "per_seed": r.get("per_seed"), "reason": [r.get("reason", "")], "wall_s": r.get("wall_s")}},
        "detected_by": det,
        "how_run": fr.get("how"),
        "harness_commit": fr.get("harness_commit"),
        "earlier_runs": [{"harness_commit": fr.get("harness_commit"), "how": "first run: harness as committed at that time, built against a scratch worktree with the change applied (quick tier, seeds %s)" % ",".join(fr.get("seeds", [])), "checks_run": [pid], "detected_by": det, "per_seed": r.get("per_seed")}],
        "round": int(rnd),
        "round_kind": kind,
        "title": notes.splitlines()[0].strip("# ").strip(),
    }
    json.dump(meta, open(dst + "/meta.json", "w"), indent=1)
    print("filed", sid, "detected" if det else "MISSED")
