#!/usr/bin/env python3
"""Stage 1 of accepting a seeded change: confirm, in the scratch worktree, that it
   (a) applies, (b) passes the repository's unchanged test suite, (c) its demonstration fails with
   it and (d) passes without it.   usage: seed_verify.py Cxx N   -> writes out-Cxx/verifyN.json"""
import json, os, subprocess, sys, shutil
pid, n = sys.argv[1], sys.argv[2]
prefix = os.environ.get("SEED_OUT", "out")
wt = "/tmp/seedwork/wt-%s" % pid
out = "/tmp/seedwork/%s-%s" % (prefix, pid)
env = dict(os.environ, CARGO_NET_OFFLINE="true")
def run(cmd, **kw):
    p = subprocess.run(cmd, cwd=wt, env=env, capture_output=True, text=True, **kw)
    return p.returncode, (p.stdout + p.stderr)
res = {"property": pid, "mutant": int(n)}
diff = "%s/mutant%s.diff" % (out, n)
demo = "%s/demo%s.rs" % (out, n)
run(["git", "checkout", "--", "."]); 
for f in os.listdir(wt + "/tests"):
    if f.startswith("demo") or f.startswith("seed_demo"): os.remove(wt + "/tests/" + f)
rc, o = run(["git", "apply", "--check", diff]); res["applies"] = rc == 0
if rc != 0:
    res["error"] = o[-500:]; json.dump(res, open("%s/verify%s.json" % (out, n), "w"), indent=1); sys.exit(1)
run(["git", "apply", diff])
rc, o = run(["cargo", "test", "--offline"]); res["suite_passes_with_mutant"] = rc == 0
res["suite_tail"] = [l for l in o.splitlines() if l.startswith("test result")][-4:]
shutil.copy(demo, wt + "/tests/seed_demo.rs")
rc, o = run(["cargo", "test", "--offline", "--test", "seed_demo"]); res["demo_fails_with_mutant"] = rc != 0
res["demo_with_mutant"] = [l for l in o.splitlines() if l.startswith("test result") or "FAILED" in l or "panicked" in l][:6]
run(["git", "checkout", "--", "src"])
rc, o = run(["cargo", "test", "--offline", "--test", "seed_demo"]); res["demo_passes_without_mutant"] = rc == 0
res["demo_without_mutant"] = [l for l in o.splitlines() if l.startswith("test result")][-1:]
os.remove(wt + "/tests/seed_demo.rs")
run(["git", "checkout", "--", "."])
res["ok"] = all([res["applies"], res["suite_passes_with_mutant"], res["demo_fails_with_mutant"], res["demo_passes_without_mutant"]])
json.dump(res, open("%s/verify%s.json" % (out, n), "w"), indent=1)
print(pid, n, "OK" if res["ok"] else "REJECT", res)
