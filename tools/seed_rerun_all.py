#!/usr/bin/env python3
"""Sensitivity regression: apply every kept seeded change to /repo in turn, run the target
   property's quick check, undo; report any change that is no longer detected.
   usage: tools/seed_rerun_all.py [ids...]     (writes /verif/seeded/RERUN.json)"""
import glob, json, os, subprocess, sys, time
want = set(sys.argv[1:])
def sh(cmd, cwd="/verif"):
    p = subprocess.run(cmd, cwd=cwd, capture_output=True, text=True)
    return p.returncode, p.stdout + p.stderr
assert sh(["git", "-C", "/repo", "status", "--short"])[1].strip() == "", "/repo not clean"
out = {"harness_commit": sh(["git", "rev-parse", "--short", "HEAD"])[1].strip(), "results": {}}
if want and os.path.exists("/verif/seeded/RERUN.json"):
    # partial re-run: keep the other results
    old = json.load(open("/verif/seeded/RERUN.json"))
    out["results"] = old.get("results", {})
    out["partial_update_of"] = old.get("harness_commit")
missed = []
for d in sorted(glob.glob("/verif/seeded/*/")):
    sid = os.path.basename(d.rstrip("/"))
    if want and sid not in want:
        continue
    meta = json.load(open(d + "meta.json"))
    prop = meta["breaks_property"]
    rc, o = sh(["git", "-C", "/repo", "apply", d + "patch.diff"])
    if rc != 0:
        out["results"][sid] = {"error": "does not apply"}; missed.append(sid); continue
    try:
        t0 = time.time()
        rc, o = sh(["./check", prop, "quick"])
        det = rc == 1 and "VIOLATION property=%s" % prop in o
        out["results"][sid] = {"check": prop, "exit": rc, "detected": det, "wall_s": round(time.time() - t0, 1)}
        print(sid, "detected" if det else "MISSED (exit %d)" % rc, flush=True)
        if not det:
            missed.append(sid)
    finally:
        sh(["git", "-C", "/repo", "checkout", "--", "."])
out["missed"] = sorted(k for k, v in out["results"].items() if not v.get("detected"))
json.dump(out, open("/verif/seeded/RERUN.json", "w"), indent=1)
print("done: %d changes, %d missed: %s" % (len(out["results"]), len(missed), missed))
