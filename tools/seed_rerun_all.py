#!/usr/bin/env python3
"""Sensitivity regression: apply every kept seeded change in turn, run the target property's
   quick check, undo; report any change that is no longer detected.

   usage: tools/seed_rerun_all.py [--jobs N] [--seeds 1,2,3] [--candidates PREFIX --out FILE] [ids...]
          (writes /verif/seeded/RERUN.json unless --out is given)

   --seeds: run the check once per listed VERIF_SEED (one build per change); a change counts as
   detected only if every seed reports it, and the per-seed verdicts are recorded.
   --candidates PREFIX: instead of the kept changes, take the not yet filed candidates
   /tmp/seedwork/PREFIX-Cxx/mutantN.diff (development: the "first run" of a new seeding round).

   --jobs 1 (default): literally in /repo - git apply, ./check <id> quick, git checkout.
   --jobs N: N scratch git worktrees of /repo's HEAD under /tmp/pv-rerun-<pid>, each with its own copy
   of the harness source (Cargo.toml pointing at that worktree) and its own output directory, so
   /repo, /verif/evidence and /verif/replays are not touched; everything under that directory is
   removed at the end.  The harness that is copied is the working tree of /verif/harness."""
import glob, json, os, shutil, subprocess, sys, threading, time

args = sys.argv[1:]
jobs = 1
if "--jobs" in args:
    i = args.index("--jobs")
    jobs = int(args[i + 1])
    del args[i:i + 2]
seeds = ["1"]
if "--seeds" in args:
    i = args.index("--seeds")
    seeds = args[i + 1].split(",")
    del args[i:i + 2]
candidates = None
if "--candidates" in args:
    i = args.index("--candidates")
    candidates = args[i + 1]
    del args[i:i + 2]
outfile = "/verif/seeded/RERUN.json"
if "--out" in args:
    i = args.index("--out")
    outfile = args[i + 1]
    del args[i:i + 2]
want = set(args)
ENV = dict(os.environ, CARGO_NET_OFFLINE="true")


def sh(cmd, cwd="/verif", env=None):
    p = subprocess.run(cmd, cwd=cwd, capture_output=True, text=True, env=env or ENV)
    return p.returncode, p.stdout + p.stderr


assert sh(["git", "-C", "/repo", "status", "--short"])[1].strip() == "", "/repo not clean"
out = {"harness_commit": sh(["git", "rev-parse", "--short", "HEAD"])[1].strip(), "results": {}}
out["seeds"] = seeds
if want and os.path.exists(outfile):
    # partial re-run: keep the other results
    old = json.load(open(outfile))
    out["results"] = old.get("results", {})
    out["partial_update_of"] = old.get("harness_commit")

todo = []
if candidates:
    for f in sorted(glob.glob("/tmp/seedwork/%s-C*/mutant*.diff" % candidates)):
        prop = f.split("/")[-2].split("-")[-1]
        sid = "%s-%s" % (prop, os.path.basename(f)[:-5])
        if want and sid not in want:
            continue
        todo.append((sid, f, prop))
else:
    for d in sorted(glob.glob("/verif/seeded/*/")):
        sid = os.path.basename(d.rstrip("/"))
        if want and sid not in want:
            continue
        todo.append((sid, d + "patch.diff", json.load(open(d + "meta.json"))["breaks_property"]))

lock = threading.Lock()


def record(sid, prop, runs, t0):
    """runs: list of (seed, exit code, output)"""
    per = {sd: (rc == 1 and "VIOLATION property=%s" % prop in o) for sd, rc, o in runs}
    det = all(per.values())
    reason = ""
    for sd, rc, o in runs:
        for l in o.splitlines():
            if l.strip().startswith("reason:"):
                reason = l.strip()[:200]
                break
        if reason:
            break
    with lock:
        out["results"][sid] = {"check": prop, "exit": [rc for _, rc, _ in runs], "detected": det, "per_seed": per, "reason": reason, "wall_s": round(time.time() - t0, 1)}
        print(sid, "detected" if det else "MISSED %s" % per, reason[:120], flush=True)


if jobs <= 1:
    out["how"] = "git -C /repo apply; ./check <property> quick; git -C /repo checkout -- ."
    for sid, d, prop in todo:
        rc, o = sh(["git", "-C", "/repo", "apply", d])
        if rc != 0:
            out["results"][sid] = {"error": "does not apply", "detected": False}
            continue
        try:
            t0 = time.time()
            runs = []
            for sd in seeds:
                rc, o = sh(["./check", prop, "quick"], env=dict(ENV, VERIF_SEED=sd))
                runs.append((sd, rc, o))
            record(sid, prop, runs, t0)
        finally:
            sh(["git", "-C", "/repo", "checkout", "--", "."])
else:
    out["how"] = "%d scratch worktrees of /repo HEAD with private harness copies under /tmp/pv-rerun-<pid> (removed afterwards); pv <property> quick" % jobs
    root = "/tmp/pv-rerun-%d" % os.getpid()
    shutil.rmtree(root, ignore_errors=True)
    sh(["git", "-C", "/repo", "worktree", "prune"])
    os.makedirs(root)
    workers = []
    try:
        for k in range(jobs):
            wt, hc, vd = "%s/wt%d" % (root, k), "%s/h%d" % (root, k), "%s/v%d" % (root, k)
            rc, o = sh(["git", "-C", "/repo", "worktree", "add", "--detach", wt, "HEAD"])
            assert rc == 0, o
            shutil.copytree("/verif/harness", hc, ignore=shutil.ignore_patterns("target", "work", "corpus", "artifacts"))
            toml = open(hc + "/Cargo.toml").read().replace('path = "/repo"', 'path = "%s"' % wt)
            open(hc + "/Cargo.toml", "w").write(toml)
            os.makedirs(vd)
            for sub in ("regressions", "known_findings.json"):
                src = "/verif/" + sub
                (shutil.copytree if os.path.isdir(src) else shutil.copy)(src, vd + "/" + sub)
            workers.append((wt, hc, vd))
        queue = list(todo)

        def work(wt, hc, vd):
            env = dict(ENV, VERIF_DIR=vd)
            while True:
                with lock:
                    if not queue:
                        return
                    sid, d, prop = queue.pop(0)
                sh(["git", "checkout", "-q", "--", "."], cwd=wt)
                rc, o = sh(["git", "apply", d], cwd=wt)
                if rc != 0:
                    with lock:
                        out["results"][sid] = {"error": "does not apply", "detected": False}
                    continue
                t0 = time.time()
                rc, o = sh(["cargo", "build", "--release", "--offline"], cwd=hc, env=env)
                if rc != 0:
                    with lock:
                        out["results"][sid] = {"error": "build failed", "detected": False}
                        print(sid, "BUILD FAILED", o[-300:], flush=True)
                    continue
                runs = []
                for sd in seeds:
                    rc, o = sh([hc + "/target/release/pv", prop, "quick"], cwd=hc, env=dict(env, VERIF_SEED=sd))
                    runs.append((sd, rc, o))
                record(sid, prop, runs, t0)
                sh(["git", "checkout", "-q", "--", "."], cwd=wt)

        ts = [threading.Thread(target=work, args=w) for w in workers]
        [t.start() for t in ts]
        [t.join() for t in ts]
    finally:
        for wt, _, _ in workers:
            sh(["git", "-C", "/repo", "worktree", "remove", "--force", wt])
        sh(["git", "-C", "/repo", "worktree", "prune"])
        shutil.rmtree(root, ignore_errors=True)

out["missed"] = sorted(k for k, v in out["results"].items() if not v.get("detected"))
json.dump(out, open(outfile, "w"), indent=1, sort_keys=True)
print("done: %d changes, %d missed: %s" % (len(out["results"]), len(out["missed"]), out["missed"]))
