#!/usr/bin/env python3
"""Stage 2 of accepting a seeded change: apply it to /repo, run the checks, undo it, and file it
   under /verif/seeded/<id>/.   usage: seed_run.py Cxx N [extra check ids...]"""
import json, os, subprocess, sys, shutil, time
pid, n = sys.argv[1], sys.argv[2]
extra = sys.argv[3:]
prefix = os.environ.get("SEED_OUT", "out")
tag = os.environ.get("SEED_TAG", "m")
out = "/tmp/seedwork/%s-%s" % (prefix, pid)
ver = json.load(open("%s/verify%s.json" % (out, n)))
assert ver["ok"], "stage 1 did not confirm this mutant"
diff = "%s/mutant%s.diff" % (out, n)
def sh(cmd, cwd="/verif", timeout=1800):
    p = subprocess.run(cmd, cwd=cwd, capture_output=True, text=True, timeout=timeout)
    return p.returncode, p.stdout + p.stderr
assert sh(["git", "-C", "/repo", "status", "--short"])[1].strip() == "", "/repo not clean"
rc, o = sh(["git", "-C", "/repo", "apply", diff]); assert rc == 0, o
results = {}
try:
    for check in [pid] + extra:
        t0 = time.time()
        rc, o = sh(["./check", check, "quick"])
        viol = [l for l in o.splitlines() if l.startswith("VIOLATION")]
        reason = [l.strip() for l in o.splitlines() if l.strip().startswith("reason:") or l.startswith("regression ")][:2]
        results[check] = {"tier": "quick", "exit": rc, "violation_lines": viol[:3], "reason": reason, "wall_s": round(time.time() - t0, 1)}
        print(check, "quick exit", rc, viol[:1], reason[:1])
finally:
    sh(["git", "-C", "/repo", "checkout", "--", "."])
assert sh(["git", "-C", "/repo", "status", "--short"])[1].strip() == ""
dst = "/verif/seeded/%s-%s%s" % (pid, tag, n)
os.makedirs(dst, exist_ok=True)
shutil.copy(diff, dst + "/patch.diff")
shutil.copy("%s/demo%s.rs" % (out, n), dst + "/demo.rs")
shutil.copy("%s/notes%s.md" % (out, n), dst + "/notes.md")
notes = open("%s/notes%s.md" % (out, n)).read()
meta = {
    "id": "%s-%s%s" % (pid, tag, n),
    "breaks_property": pid,
    "origin": "independent sub-agent given only the property text and a scratch worktree",
    "needs_to_manifest": "see notes.md (written by the author of the change)",
    "confirmed_in_scratch_worktree": {
        "existing_suite_passes_with_change": ver["suite_passes_with_mutant"],
        "demonstration_fails_with_change": ver["demo_fails_with_mutant"],
        "demonstration_passes_without_change": ver["demo_passes_without_mutant"],
        "commands": ["git apply patch.diff", "cargo test --offline", "cp demo.rs tests/seed_demo.rs && cargo test --offline --test seed_demo", "git checkout -- src && cargo test --offline --test seed_demo"],
    },
    "checks_run_against_it": results,
    "detected_by": [k for k, v in results.items() if v["exit"] == 1 and v["violation_lines"]],
    "how_run": "git -C /repo apply patch.diff; ./check <id> quick; git -C /repo checkout -- .",
}
if os.path.exists(dst + "/meta.json"):
    old = json.load(open(dst + "/meta.json"))
    hist = old.get("earlier_runs", [])
    hist.append({"harness_commit": old.get("harness_commit"), "checks_run_against_it": old["checks_run_against_it"], "detected_by": old["detected_by"]})
    meta["earlier_runs"] = hist
meta["harness_commit"] = subprocess.run(["git", "-C", "/verif", "rev-parse", "--short", "HEAD"], capture_output=True, text=True).stdout.strip()
json.dump(meta, open(dst + "/meta.json", "w"), indent=1)
print("filed", dst, "detected_by", meta["detected_by"])
