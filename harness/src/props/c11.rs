//! C11 — each recognised distinfo line lands on its file; other lines change nothing.

use crate::engine::gen::idx;
use crate::engine::*;
use crate::models::distinfo::{self as m, Kind};
use crate::models::hash::{Alg, ALGS};
use crate::props::c10::compare_entries;
use crate::props::distgen;
use pkgsrc::distinfo::{Distinfo, EntryType};
use proptest::prelude::*;
use serde::{Deserialize, Serialize};
use std::ffi::OsString;
use std::os::unix::ffi::{OsStrExt, OsStringExt};
use std::path::PathBuf;

#[derive(Clone, Debug, Serialize, Deserialize)]
pub struct Case {
    pub lines: Vec<B>,
    pub final_newline: bool,
}

const NOISE: [&[u8]; 34] = [
    b"", b" ", b"\t", b"# a comment", b"#SHA1 (x) = 1", b"   # indented comment", b"SHA3 (f) = abc", b"CRC32 (f) = 1",
    b"Sizes (f) = 1 bytes", b"MD55 (f) = 00", b"Size (f) =  bytes", b"Size (f) = abc bytes", b"Size (f) = -1 bytes",
    b"Size (f) = 1.5 bytes", b"Size (f) = 12kb", b"Size (f) = 18446744073709551616 bytes", b"hello world", b"foo (f) = bar",
    b"size (f) = 1 bytes", b"$NetBSD$", b"=", b"( ) = x", b"\xff\xfe (f) = 1", b"SHA1", b"SHA1 (f)", b"SHA1 (f) =",
    b"Size (f) =", b"Size (f)", b"Size", b"MD5 f = 1", b"SHA1 (f = 1", b"SHA1 f) = 1", b"RMD160 ( = 1", b"BLAKE2s ) = 1",
];

fn blanks() -> BoxedStrategy<Vec<u8>> {
    prop_oneof![
        12 => prop::sample::select(vec![&b" "[..], b" ", b" ", b"  ", b"\t", b" \t ", b"   "]).prop_map(|s| s.to_vec()),
        // a run of a chosen length (column-aligned files have long runs)
        1 => (crate::engine::gen::interesting_len(40), any::<bool>()).prop_map(|(n, tab)| vec![if tab { b'\t' } else { b' ' }; n.max(1)]),
    ]
    .boxed()
}

fn alg_spelling(a: Alg, mask: u32) -> String {
    if mask % 3 == 0 {
        crate::engine::gen::apply_case(&a.name().to_ascii_lowercase(), mask >> 2)
    } else {
        a.name().to_string()
    }
}

#[derive(Clone, Debug)]
struct FileSpec {
    name: Vec<u8>,
    checksums: Vec<(Alg, String)>,
    size: Option<u64>,
}

fn render_line(key: &str, name: &[u8], value: &str, bl: &[Vec<u8>], lead: bool) -> Vec<u8> {
    let mut v = vec![];
    if lead {
        v.extend_from_slice(&bl[3 % bl.len()]);
    }
    v.extend_from_slice(key.as_bytes());
    v.extend_from_slice(&bl[0]);
    v.push(b'(');
    v.extend_from_slice(name);
    v.push(b')');
    v.extend_from_slice(&bl[1 % bl.len()]);
    v.push(b'=');
    v.extend_from_slice(&bl[2 % bl.len()]);
    v.extend_from_slice(value.as_bytes());
    v
}

pub fn case_strategy(tier: Tier) -> BoxedStrategy<Case> {
    let max_files = tier.pick(4, 5);
    let file = (distgen::name(), distgen::checksums(), distgen::size())
        .prop_map(|(name, checksums, size)| FileSpec { name, checksums, size });
    (
        prop::collection::vec(file, 1..=max_files),
        prop::collection::vec((blanks(), blanks(), blanks(), blanks(), any::<u32>(), any::<bool>()), 24),
        prop::collection::vec((0usize..NOISE.len(), any::<u16>()), 0..10),
        prop::collection::vec(any::<u16>(), 40),
        distgen::rcsid(),
        any::<bool>(),
        // one document in fifteen: a chosen number of further tokens behind one line
        prop::option::weighted(0.07, (any::<u16>(), crate::engine::gen::interesting_len(400))),
    )
        .prop_map(|(files, styles, noise, shuffle, rcs, final_newline, trailing)| {
            let mut lines: Vec<Vec<u8>> = vec![];
            let mut k = 0usize;
            let mut seen = std::collections::BTreeSet::new();
            // sometimes two files share their last path component
            let mut files = files;
            if shuffle[0] % 3 == 0 && m::classify(&files[0].name) == Kind::Distfile {
                let twin = [b"twin-dir/".to_vec(), m::basename(&files[0].name).to_vec()].concat();
                if m::unambiguous(&twin) {
                    let mut t = files[0].clone();
                    t.name = twin;
                    t.checksums.reverse();
                    files.insert(1, t);
                }
            }
            // per-file line runs (checksums in order, the size line at a random place of the run)
            let mut runs: Vec<Vec<Vec<u8>>> = vec![];
            for f in &files {
                if !seen.insert(f.name.clone()) {
                    continue;
                }
                let mut run = vec![];
                for (a, h) in &f.checksums {
                    let st = &styles[k % styles.len()];
                    k += 1;
                    let bl = [st.0.clone(), st.1.clone(), st.2.clone(), st.3.clone()];
                    run.push(render_line(&alg_spelling(*a, st.4), &f.name, h, &bl, st.5 && st.4 % 5 == 0));
                }
                if let Some(sz) = f.size {
                    let st = &styles[k % styles.len()];
                    k += 1;
                    let bl = [st.0.clone(), st.1.clone(), st.2.clone(), st.3.clone()];
                    let mut l = render_line("Size", &f.name, &sz.to_string(), &bl, st.5 && st.4 % 5 == 0);
                    if st.4 % 7 != 0 {
                        l.extend_from_slice(&bl[0]);
                        l.extend_from_slice(b"bytes");
                    }
                    let at = idx(shuffle[k % shuffle.len()], run.len() + 1);
                    run.insert(at, l);
                }
                runs.push(run);
            }
            // interleave the runs (each file's own line order is kept)
            for r in runs.iter_mut() {
                r.reverse();
            }
            runs.retain(|r| !r.is_empty());
            let mut j = 0usize;
            while !runs.is_empty() {
                let sel = shuffle[j % shuffle.len()].wrapping_add((j as u16).wrapping_mul(31337));
                // mostly stay on the same file, sometimes switch
                let i = if sel % 3 == 0 { idx(sel, runs.len()) } else { 0 };
                lines.push(runs[i].pop().unwrap());
                if runs[i].is_empty() {
                    runs.remove(i);
                }
                j += 1;
            }
            if let Some((sel, n)) = trailing {
                if !lines.is_empty() {
                    let k = idx(sel, lines.len());
                    for _ in 0..n {
                        lines[k].extend_from_slice(b" t");
                    }
                }
            }
            if let Some(r) = rcs {
                lines.insert(0, r);
                lines.insert(1, vec![]);
            }
            for (n, pos) in noise {
                let at = idx(pos, lines.len() + 1);
                lines.insert(at, NOISE[n].to_vec());
            }
            Case { lines: lines.into_iter().map(B).collect(), final_newline }
        })
        .boxed()
}

/// every token at edit distance one from a supported algorithm name or from "Size" (insertion and
/// substitution with - _ . digits and letters, deletion, transposition), as the keyword of a line
/// between two recognised lines of the same file and alone on a file of its own
fn enumerate_near_keywords(_t: Tier) -> Box<dyn Iterator<Item = Case>> {
    const CH: &[u8] = b"-_.0123456789abcdefghijklmnopqrstuvwxyzS";
    let mut words = std::collections::BTreeSet::new();
    for name in ["BLAKE2s", "MD5", "RMD160", "SHA1", "SHA256", "SHA512", "Size"] {
        let b = name.as_bytes();
        for i in 0..=b.len() {
            for c in CH {
                let mut w = b.to_vec();
                w.insert(i, *c);
                words.insert(w);
                if i < b.len() {
                    let mut w = b.to_vec();
                    w[i] = *c;
                    words.insert(w);
                }
            }
            if i < b.len() {
                let mut w = b.to_vec();
                w.remove(i);
                words.insert(w);
            }
            if i + 1 < b.len() {
                let mut w = b.to_vec();
                w.swap(i, i + 1);
                words.insert(w);
            }
        }
    }
    Box::new(words.into_iter().filter(|w| !w.is_empty()).map(|w| {
        let line = |name: &str, value: &str| -> B { B([w.clone(), format!(" ({}) = {}", name, value).into_bytes()].concat()) };
        Case {
            lines: vec![
                B(b"SHA1 (f.tgz) = 00aa".to_vec()),
                line("f.tgz", "11bb"),
                B(b"Size (f.tgz) = 7 bytes".to_vec()),
                line("g.tgz", "22 bytes"),
                B(b"MD5 (f.tgz) = 33cc".to_vec()),
            ],
            final_newline: true,
        }
    }))
}

/// lines that are not of the two recognised shapes but that a liberal parser may still take
/// (right keyword, parenthesised name, a value, but something other than '=' in between)
fn liberal_shape(line: &[u8]) -> bool {
    let f: Vec<&[u8]> = line.split(|b| m::is_ws(*b)).filter(|s| !s.is_empty()).collect();
    f.len() >= 4
        && f[2] != b"="
        && f[1].len() >= 2
        && f[1][0] == b'('
        && f[1][f[1].len() - 1] == b')'
        && std::str::from_utf8(f[0]).map(|a| a == "Size" || Alg::from_name_ci(a).is_some()).unwrap_or(false)
}

/// a Size line whose number carries a plus sign ('+5'): the statement says "a valid size" without
/// saying whether that is one (Rust's integer parser takes it, pkgsrc never writes it)
fn signed_size(line: &[u8]) -> bool {
    let f: Vec<&[u8]> = line.split(|b| m::is_ws(*b)).filter(|s| !s.is_empty()).collect();
    f.len() >= 4 && f[0] == b"Size" && f[3].starts_with(b"+")
}

pub fn check(c: &Case, obs: &mut Obs) -> Result<(), String> {
    let mut text = vec![];
    for (i, l) in c.lines.iter().enumerate() {
        if l.0.contains(&b'\n') || l.0.contains(&0x0b) || liberal_shape(&l.0) || signed_size(&l.0) {
            obs.excluded = true;
            return Ok(());
        }
        if i > 0 {
            text.push(b'\n');
        }
        text.extend_from_slice(&l.0);
    }
    if c.final_newline {
        text.push(b'\n');
    }
    let d = m::parse(&text);
    // domain: names must classify unambiguously, be free of odd path components, and carry at
    // most one size line
    let mut sizes = std::collections::BTreeMap::new();
    for l in &c.lines {
        if let m::Line::Size(n, _) = m::parse_line(&l.0) {
            *sizes.entry(n).or_insert(0) += 1;
        }
    }
    let mut keys = std::collections::BTreeSet::new();
    for f in d.distfiles.iter().chain(d.patchfiles.iter()) {
        // (two spellings of one path, such as a/b and a//b, are one entry to the library)
        if !m::name_in_domain(&f.name) || !keys.insert(m::path_key(&f.name)) || sizes.get(&f.name).copied().unwrap_or(0) > 1 {
            obs.excluded = true;
            return Ok(());
        }
    }
    let got = Distinfo::from_bytes(&text);
    obs.verdicts += 1;
    compare_entries(&got.distfiles(), &d.distfiles, Kind::Distfile, "distfiles()")
        .map_err(|e| format!("{}\ninput: {:?}", e, B(text.clone())))?;
    compare_entries(&got.patchfiles(), &d.patchfiles, Kind::Patchfile, "patchfiles()")
        .map_err(|e| format!("{}\ninput: {:?}", e, B(text.clone())))?;
    let want_rcs = d.rcsid.clone().map(OsString::from_vec);
    if got.rcsid() != want_rcs.as_ref() {
        return Err(format!("rcsid() = {:?}, expected {:?}", got.rcsid(), want_rcs));
    }
    for f in &d.distfiles {
        let p = PathBuf::from(OsString::from_vec(f.name.clone()));
        match got.get_distfile(&p) {
            Some(e) if e.filename.as_os_str().as_bytes() == f.name.as_slice() => {}
            other => return Err(format!("get_distfile({:?}) = {:?}", B(f.name.clone()), other.map(|e| &e.filename))),
        }
        if got.get_patchfile(&p).is_some() {
            return Err(format!("distfile {:?} also listed as a patch", B(f.name.clone())));
        }
        if EntryType::from(&p) != EntryType::Distfile {
            return Err(format!("EntryType::from({:?}) is not Distfile", B(f.name.clone())));
        }
    }
    for f in &d.patchfiles {
        let p = PathBuf::from(OsString::from_vec(f.name.clone()));
        match got.get_patchfile(&p) {
            Some(e) if e.filename.as_os_str().as_bytes() == f.name.as_slice() => {}
            other => return Err(format!("get_patchfile({:?}) = {:?}", B(f.name.clone()), other.map(|e| &e.filename))),
        }
        if got.get_distfile(&p).is_some() {
            return Err(format!("patch {:?} also listed as a distfile", B(f.name.clone())));
        }
        if EntryType::from(&p) != EntryType::Patchfile {
            return Err(format!("EntryType::from({:?}) is not Patchfile", B(f.name.clone())));
        }
    }
    // classification of the lines for the non-triviality rule
    let parsed: Vec<m::Line> = c.lines.iter().map(|l| m::parse_line(&l.0)).collect();
    let owner = |l: &m::Line| -> Option<Vec<u8>> {
        match l {
            m::Line::Checksum(_, n, _) | m::Line::Size(n, _) => Some(n.clone()),
            _ => None,
        }
    };
    let nfiles = d.distfiles.len() + d.patchfiles.len();
    let mut noise_between = false;
    let mut interleaved = false;
    for i in 0..parsed.len() {
        if let Some(n) = owner(&parsed[i]) {
            let mut saw_noise = false;
            let mut saw_other = false;
            for p in parsed.iter().skip(i + 1) {
                match owner(p) {
                    None => {
                        if !matches!(p, m::Line::RcsId(_)) {
                            saw_noise = true
                        }
                    }
                    Some(o) if o == n => {
                        noise_between |= saw_noise;
                        interleaved |= saw_other;
                        break;
                    }
                    Some(_) => saw_other = true,
                }
            }
        }
    }
    obs.nontrivial = nfiles >= 2 && interleaved && noise_between;
    if interleaved {
        obs.class("interleaved-files");
    }
    if noise_between {
        obs.class("noise-between-lines-of-a-file");
    }
    if c.lines.iter().any(|l| [&b"SHA1"[..], b"SHA1 (f)", b"SHA1 (f) =", b"Size (f) =", b"Size (f)", b"Size"].contains(&l.0.as_slice())) {
        obs.class("truncated-line");
    }
    if d.distfiles.iter().chain(d.patchfiles.iter()).any(|f| f.name.iter().any(|b| *b >= 0x80)) {
        obs.class("name-with-byte>=0x80");
    }
    if !d.patchfiles.is_empty() {
        obs.class("has-patches");
    }
    Ok(())
}

// ---------------------------------------------------------------- classification alone

#[derive(Clone, Debug, Serialize, Deserialize)]
pub struct NameCase {
    pub name: B,
}

fn name_strategy(_t: Tier) -> BoxedStrategy<NameCase> {
    distgen::name().prop_map(|n| NameCase { name: B(n) }).boxed()
}

pub fn check_name(c: &NameCase, obs: &mut Obs) -> Result<(), String> {
    if !m::unambiguous(&c.name.0) || c.name.0.is_empty() {
        obs.excluded = true;
        return Ok(());
    }
    let p = PathBuf::from(OsString::from_vec(c.name.0.clone()));
    let got = EntryType::from(&p);
    let want = m::classify(&c.name.0);
    obs.verdicts += 1;
    let gk = if got == EntryType::Patchfile { Kind::Patchfile } else { Kind::Distfile };
    if gk != want {
        return Err(format!("EntryType::from({:?}) = {:?}, the naming rule says {:?}", c.name, got, want));
    }
    let b = m::basename(&c.name.0);
    obs.nontrivial = b.starts_with(b"patch-") || b.starts_with(b"emul-");
    obs.class(if want == Kind::Patchfile { "patch" } else { "distfile" });
    Ok(())
}

pub fn property() -> Property {
    let _ = ALGS;
    Property {
        id: "C11",
        rule: "Texts built from 1-5 files (names as in C10): for each file its checksum lines in order (algorithm in canonical or random-case spelling, hash token) and at most one size line at a random place ('Size (n) = N bytes', sometimes without 'bytes'), 1-3 blanks/tabs between fields, sometimes leading blanks; the files' runs are interleaved; an optional RCS line; 0-9 noise lines inserted anywhere: comments, blank lines, unknown algorithms (SHA3, CRC32, Sizes, MD55, size), bad sizes (empty, abc, -1, 1.5, 12kb, 2^64), garbage, '$NetBSD$', invalid UTF-8 keyword, truncations of well-formed lines (SHA1 | SHA1 (f) | SHA1 (f) = | Size (f) = | Size (f) | Size), missing parentheses. Oracle: M-distinfo applied line by line - distfiles() and patchfiles() list exactly the model's files in first-appearance order with checksums in line order and the size, get_distfile/get_patchfile find each under exactly its name and not in the other map, EntryType::from = the naming rule; the RCS Id is the last '$NetBSD: ' line. Second stream: the classification rule alone on generated names. Non-trivial = >= 2 files, interleaved, and a noise line between two lines of the same file. Distinct = distinct texts. Generators also draw, at low weight, tokens from the source-literal dictionary (every string / byte / character literal of the library's own source, collected at build time and filtered by this domain's character class) (as name components); names with a leading './', doubled / trailing '/' and interior '.' components are inside the domain.",
        assumptions: vec![
            "lines with the right keyword, a parenthesised name and a value but something other than '=' in between are outside the domain (a liberal parser may accept them)",
            "at most one size line per file; blanks between fields are spaces and tabs; no VT (0x0B) anywhere",
            "algorithm names are recognised case-insensitively (C13)",
        ],
        streams: vec![
            random_stream("texts", "interleaved checksum/size lines mixed with noise", case_strategy, |t| t.pick(80_000, 4_000_000), check),
            enumerated_stream("near-keywords", "every token at edit distance one from an algorithm name or 'Size' as the keyword of a line", enumerate_near_keywords, check),
            random_stream("names", "patch / distfile classification of generated names", name_strategy, |t| t.pick(40_000, 2_000_000), check_name), crate::fuzz::replay_stream()],
        selfcheck: m::selfcheck,
        hang_is_violation: false,
        min_nontrivial_share: 0.03,
        extra: Some(crate::fuzz::extra),
    }
}
