//! Dispatch table from variable index (pkg_summary order) to the real Summary API.

use crate::models::summary::{Call, Kind, Val, VARS};
use pkgsrc::summary::Summary;

pub fn set(s: &mut Summary, i: usize, v: &Val) -> Result<(), String> {
    match (i, v) {
        (0, Val::S(x)) => s.set_build_date(x),
        (1, Val::S(x)) => s.set_categories(x),
        (2, Val::S(x)) => s.set_comment(x),
        (3, Val::L(x)) => s.set_conflicts(x),
        (4, Val::L(x)) => s.set_depends(x),
        (5, Val::L(x)) => s.set_description(x),
        (6, Val::S(x)) => s.set_file_cksum(x),
        (7, Val::S(x)) => s.set_file_name(x),
        (8, Val::I(x)) => s.set_file_size(*x),
        (9, Val::S(x)) => s.set_homepage(x),
        (10, Val::S(x)) => s.set_license(x),
        (11, Val::S(x)) => s.set_machine_arch(x),
        (12, Val::S(x)) => s.set_opsys(x),
        (13, Val::S(x)) => s.set_os_version(x),
        (14, Val::S(x)) => s.set_pkg_options(x),
        (15, Val::S(x)) => s.set_pkgname(x),
        (16, Val::S(x)) => s.set_pkgpath(x),
        (17, Val::S(x)) => s.set_pkgtools_version(x),
        (18, Val::S(x)) => s.set_prev_pkgpath(x),
        (19, Val::L(x)) => s.set_provides(x),
        (20, Val::L(x)) => s.set_requires(x),
        (21, Val::I(x)) => s.set_size_pkg(*x),
        (22, Val::L(x)) => s.set_supersedes(x),
        _ => return Err(format!("ill-typed set for variable {}: {:?}", i, v)),
    }
    Ok(())
}

pub fn push(s: &mut Summary, i: usize, x: &str) -> Result<(), String> {
    match i {
        3 => s.push_conflicts(x),
        4 => s.push_depends(x),
        5 => s.push_description(x),
        19 => s.push_provides(x),
        20 => s.push_requires(x),
        22 => s.push_supersedes(x),
        _ => return Err(format!("variable {} has no push", i)),
    }
    Ok(())
}

pub fn get(s: &Summary, i: usize) -> Option<Val> {
    let st = |o: Option<&str>| o.map(|x| Val::S(x.to_string()));
    let li = |o: Option<&[String]>| o.map(|x| Val::L(x.to_vec()));
    match i {
        0 => st(s.build_date()),
        1 => st(s.categories()),
        2 => st(s.comment()),
        3 => li(s.conflicts()),
        4 => li(s.depends()),
        5 => li(s.description()),
        6 => st(s.file_cksum()),
        7 => st(s.file_name()),
        8 => s.file_size().map(Val::I),
        9 => st(s.homepage()),
        10 => st(s.license()),
        11 => st(s.machine_arch()),
        12 => st(s.opsys()),
        13 => st(s.os_version()),
        14 => st(s.pkg_options()),
        15 => st(s.pkgname()),
        16 => st(s.pkgpath()),
        17 => st(s.pkgtools_version()),
        18 => st(s.prev_pkgpath()),
        19 => li(s.provides()),
        20 => li(s.requires()),
        21 => s.size_pkg().map(Val::I),
        22 => li(s.supersedes()),
        _ => None,
    }
}

pub fn apply(s: &mut Summary, h: &[Call]) -> Result<(), String> {
    for c in h {
        match c {
            Call::Set(i, v) => set(s, *i, v)?,
            Call::Push(i, x) => push(s, *i, x)?,
        }
    }
    Ok(())
}

pub fn well_typed(c: &Call) -> bool {
    match c {
        Call::Set(i, v) => {
            *i < VARS.len()
                && matches!(
                    (VARS[*i].1, v),
                    (Kind::Scalar, Val::S(_)) | (Kind::Int, Val::I(_)) | (Kind::List, Val::L(_))
                )
        }
        Call::Push(i, _) => *i < VARS.len() && VARS[*i].1 == Kind::List,
    }
}

/// compare all 23 getters (+ description_as_str) with an assignment
pub fn compare(s: &Summary, a: &crate::models::summary::Assignment, what: &str) -> Result<(), String> {
    for i in 0..VARS.len() {
        let got = get(s, i);
        let want = a.get(&i).cloned();
        if got != want {
            return Err(format!("{}: getter for {} returns {:?}, expected {:?}", what, VARS[i].0, got, want));
        }
    }
    let want_desc = a.get(&5).map(|v| match v {
        Val::L(l) => l.join("\n"),
        _ => String::new(),
    });
    if s.description_as_str() != want_desc {
        return Err(format!("{}: description_as_str() = {:?}, expected {:?}", what, s.description_as_str(), want_desc));
    }
    Ok(())
}
