pub mod vergen;
pub mod c01;

use crate::engine::Property;

pub fn all() -> Vec<Property> {
    vec![c01::property()]
}
