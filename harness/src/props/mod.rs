pub mod vergen;
pub mod c01;
pub mod c02;
pub mod c03;
pub mod c04;
pub mod c05;
pub mod c06;
pub mod c14;

use crate::engine::Property;

pub fn all() -> Vec<Property> {
    vec![c01::property(), c02::property(), c03::property(), c04::property(), c05::property(), c06::property(), c14::property()]
}
