pub mod vergen;
pub mod c01;
pub mod c02;
pub mod c03;
pub mod c04;
pub mod c05;
pub mod c06;
pub mod c07;
pub mod c08;
pub mod c09;
pub mod c10;
pub mod c11;
pub mod c12;
pub mod distgen;
pub mod c13;
pub mod sumapi;
pub mod sumgen;
pub mod c14;
pub mod c15;
pub mod c16;
pub mod c17;
pub mod c18;
pub mod c19;
pub mod c20;

use crate::engine::Property;

pub fn all() -> Vec<Property> {
    vec![c01::property(), c02::property(), c03::property(), c04::property(), c05::property(), c06::property(), c07::property(), c08::property(), c09::property(), c10::property(), c11::property(), c12::property(), c13::property(), c14::property(), c15::property(), c16::property(), c17::property(), c18::property(), c19::property(), c20::property()]
}
