pub mod vergen;
pub mod c01;
pub mod c14;

use crate::engine::Property;

pub fn all() -> Vec<Property> {
    vec![c01::property(), c14::property()]
}
