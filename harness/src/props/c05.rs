//! C05 — glob and plain patterns: whole-name match, right dispatch, inert fast-reject.

use crate::engine::gen::idx;
use crate::engine::*;
use crate::models::pattern as m;
use pkgsrc::Pattern;
use proptest::prelude::*;
use serde::{Deserialize, Serialize};

#[derive(Clone, Debug, Serialize, Deserialize)]
pub struct Case {
    pub pattern: String,
    pub name: String,
}

#[derive(Clone, Debug)]
enum Tok {
    Lit(char),
    Star,
    Any,
    Set(bool, Vec<(char, char)>),
}

const LITS: [char; 22] = [
    'a', 'b', 'c', 'f', 'o', 'x', 'A', 'B', 'Z', '0', '1', '2', '9', '-', '-', '.', '_', '+', 'é', 'p', 'y', '3',
];
const SETCH: [char; 26] = ['a', 'b', 'c', 'x', 'z', 'A', 'C', 'Z', '0', '3', '5', '9', '[', '.', '+', '_', ',', 'é', '^', '^', '!', '\\', '*', '?', ']', ']'];

fn set_member() -> BoxedStrategy<(char, char)> {
    prop_oneof![
        3 => (0usize..SETCH.len()).prop_map(|i| (SETCH[i], SETCH[i])),
        2 => prop::sample::select(vec![('0', '9'), ('a', 'z'), ('A', 'Z'), ('a', 'c'), ('2', '9'), ('0', '3'), ('b', 'x')]),
    ]
    .boxed()
}

fn tok() -> BoxedStrategy<Tok> {
    prop_oneof![
        10 => (0usize..LITS.len()).prop_map(|i| Tok::Lit(LITS[i])),
        3 => Just(Tok::Star),
        2 => Just(Tok::Any),
        3 => (any::<bool>(), prop::collection::vec(set_member(), 1..=3)).prop_map(|(n, v)| Tok::Set(n, v)),
        1 => Just(Tok::Lit(']')),
        1 => crate::engine::gen::latin1_char().prop_map(Tok::Lit),
    ]
    .boxed()
}

fn render(toks: &[Tok]) -> String {
    let mut s = String::new();
    let mut last_star = false;
    for t in toks {
        match t {
            Tok::Star => {
                if !last_star {
                    s.push('*');
                }
                last_star = true;
                continue;
            }
            Tok::Lit(c) => s.push(*c),
            Tok::Any => s.push('?'),
            Tok::Set(neg, v) => {
                s.push('[');
                if *neg {
                    s.push('!');
                }
                for (lo, hi) in v {
                    if lo == hi {
                        s.push(*lo);
                    } else {
                        s.push(*lo);
                        s.push('-');
                        s.push(*hi);
                    }
                }
                s.push(']');
            }
        }
        last_star = false;
    }
    s
}

/// a string the token list matches (members chosen by selectors)
fn instance(toks: &[Tok], sels: &[u16]) -> String {
    const FILL: [&str; 10] = ["", "1", "x", "-2.0", "ab", "1.0nb1", "é", "٣", "²x", "\\"];
    let mut s = String::new();
    for (k, t) in toks.iter().enumerate() {
        let sel = sels[k % sels.len()].wrapping_add((k as u16).wrapping_mul(40503));
        match t {
            Tok::Lit(c) => s.push(*c),
            Tok::Star => s.push_str(FILL[idx(sel, FILL.len())]),
            Tok::Any => s.push(['a', '1', '-', 'é', 'Z'][idx(sel, 5)]),
            Tok::Set(false, v) => {
                let (lo, hi) = v[idx(sel, v.len())];
                let span = hi as u32 - lo as u32 + 1;
                s.push(char::from_u32(lo as u32 + (sel as u32 % span)).unwrap_or(lo));
            }
            Tok::Set(true, v) => {
                let cands = ['q', '7', 'Q', '-', 'é', 'a', '0'];
                let c = cands
                    .iter()
                    .cycle()
                    .skip(idx(sel, cands.len()))
                    .take(cands.len())
                    .find(|c| !v.iter().any(|(lo, hi)| lo <= *c && *c <= hi))
                    .copied()
                    .unwrap_or('~');
                s.push(c);
            }
        }
    }
    s
}

fn mutate(name: &str, kind: u8, sel: u16) -> String {
    let mut cs: Vec<char> = name.chars().collect();
    let flip = |c: char| -> char {
        if c.is_ascii_lowercase() {
            c.to_ascii_uppercase()
        } else if c.is_ascii_uppercase() {
            c.to_ascii_lowercase()
        } else if c == 'q' {
            'r'
        } else {
            'q'
        }
    };
    match kind % 12 {
        0 if !cs.is_empty() => cs[0] = flip(cs[0]),
        1 if cs.len() >= 2 => cs[1] = flip(cs[1]),
        2 if !cs.is_empty() => {
            let l = cs.len() - 1;
            cs[l] = flip(cs[l]);
        }
        3 if !cs.is_empty() => {
            cs.remove(idx(sel, cs.len()));
        }
        4 => cs.insert(idx(sel, cs.len() + 1), ['a', '1', '-', 'Z'][(sel % 4) as usize]),
        5 => cs.truncate(0),
        6 => cs.truncate(1),
        7 if !cs.is_empty() => {
            let k = idx(sel, cs.len());
            cs[k] = flip(cs[k]);
        }
        8 => cs.truncate(2),
        9 if !cs.is_empty() => {
            cs.remove(0);
        }
        10 if cs.len() >= 2 => {
            cs.remove(1);
        }
        _ => cs.push('x'),
    }
    cs.into_iter().collect()
}

/// characters that stand for themselves in a glob (and are not brace or dewey syntax)
fn literal_char(c: char) -> bool {
    !c.is_control() && !"*?[]\\{}<>".contains(c)
}

fn toks_strategy(max: usize) -> BoxedStrategy<Vec<Tok>> {
    prop_oneof![
        6 => prop::collection::vec(tok(), 0..=max),
        // metacharacter forced into position 0 or 1
        2 => (prop::collection::vec(tok(), 0..=max), prop_oneof![Just(Tok::Star), Just(Tok::Any), (any::<bool>(), prop::collection::vec(set_member(), 1..=2)).prop_map(|(n, v)| Tok::Set(n, v))], 0usize..2)
            .prop_map(|(mut v, t, pos)| { let p = pos.min(v.len()); v.insert(p, t); v }),
        // one- and two-token patterns
        2 => prop::collection::vec(tok(), 0..=2),
        // plain patterns
        3 => prop::collection::vec((0usize..LITS.len()).prop_map(|i| Tok::Lit(LITS[i])), 0..=max),
        // a word the library's own source spells out, as literals, somewhere among the tokens
        2 => (prop::collection::vec(tok(), 0..=max.min(5)), crate::engine::dict::string_token(literal_char, "a"), any::<u16>())
            .prop_map(|(mut v, w, pos)| {
                let at = idx(pos, v.len() + 1);
                for (k, c) in w.chars().enumerate() {
                    v.insert(at + k, Tok::Lit(c));
                }
                v
            }),
    ]
    .boxed()
}

pub fn case_strategy(tier: Tier) -> BoxedStrategy<Case> {
    let max = tier.pick(8, 10);
    (
        toks_strategy(max),
        prop::collection::vec(any::<u16>(), 4),
        prop::option::weighted(0.5, (any::<u8>(), any::<u16>())),
        prop::option::weighted(0.1, (crate::engine::dict::string_token(literal_char, "a"), any::<bool>())),
    )
        .prop_map(|(toks, sels, mu, word)| {
            let pattern = render(&toks);
            let mut name = instance(&toks, &sels);
            // now and then the candidate is the pattern's own text (a glob with a bracket set
            // does not match itself)
            if sels[0] % 16 == 0 {
                name = pattern.clone();
            }
            // or the pattern's literals with the stars dropped and one character less (the text in
            // front of a '*' and the text behind it would have to overlap)
            if sels[0] % 16 == 1 {
                let mut cs: Vec<char> = pattern.chars().filter(|c| *c != '*').collect();
                if !cs.is_empty() {
                    cs.remove(idx(sels[1], cs.len()));
                }
                name = cs.into_iter().collect();
            }
            if let Some((k, s)) = mu {
                name = mutate(&name, k, s);
            }
            // a word of the library's own source at the end or the start of the name
            match word {
                Some((w, true)) => name.push_str(&w),
                Some((w, false)) => name.insert_str(0, &w),
                None => {}
            }
            Case { pattern, name }
        })
        .boxed()
}

/// syntax of other glob dialects (POSIX classes, '^' negation, backslash escapes, a ']' or '!'
/// inside a set): ordinary set members and literals in this dialect
const DIALECT: [&str; 16] = [
    "foo-[[:digit:]]*", "[[:alpha:]]", "[:alpha:]", "foo-[^0-9]*", "[^a]", "[^]", "[]a]", "[!]a]", "[a!]", "[!!]", "foo\\*", "\\[a]", "[\\]]", "[a-]", "[-a]", "[z-a]",
];

fn dialect_strategy(_t: Tier) -> BoxedStrategy<Case> {
    (0usize..DIALECT.len(), prop::collection::vec(prop::sample::select(vec!['a', 'b', 'z', '^', ':', '[', ']', '!', '\\', '-', 'd', '0', '5', 'f', 'o', '*', '.', 'x']), 0..8), 0u8..6)
        .prop_map(|(i, cs, mode)| {
            let free: String = cs.into_iter().collect();
            let pattern = DIALECT[i].to_string();
            let name = match mode {
                0 => pattern.clone(),
                1 => pattern.replace(['[', ']', '*', '^', '!'], ""),
                2 => format!("foo-{}", free),
                _ => free,
            };
            Case { pattern, name }
        })
        .boxed()
}

const MALFORMED: [&str; 10] = ["foo-[0-9", "[", "[!", "a[", "a-[0-9]***", "***", "a[!x", "[a-", "x[0-9]*[", "[!]"];

fn malformed_strategy(_t: Tier) -> BoxedStrategy<Case> {
    (0usize..MALFORMED.len(), prop::sample::select(vec!["", "a", "foo-1", "[", "a-1***"]))
        .prop_map(|(i, n)| Case { pattern: MALFORMED[i].to_string(), name: n.to_string() })
        .boxed()
}

pub fn check(c: &Case, obs: &mut Obs) -> Result<(), String> {
    let p = c.pattern.as_str();
    if p.contains(['{', '}', '<', '>']) || c.name.starts_with('.') || c.name.contains('/') {
        obs.excluded = true;
        return Ok(());
    }
    let compiled = Pattern::new(p);
    obs.verdicts += 1;
    if !m::has_glob_meta(p) {
        let pat = compiled.map_err(|e| format!("plain pattern {:?} rejected: {}", p, e))?;
        let got = pat.matches(&c.name);
        let want = p == c.name;
        if got != want {
            return Err(format!("plain pattern {:?} matches({:?}) = {}, identical-string rule says {}", p, c.name, got, want));
        }
        obs.class("plain");
        // non-trivial when the name differs from the pattern in exactly one of the first two characters
        let (pc, nc): (Vec<char>, Vec<char>) = (p.chars().collect(), c.name.chars().collect());
        if pc.len() == nc.len() && pc.len() >= 1 {
            let diffs: Vec<usize> = (0..pc.len()).filter(|i| pc[*i] != nc[*i]).collect();
            if diffs.len() == 1 && diffs[0] < 2 {
                obs.nontrivial = true;
                obs.class("plain-differs-in-first-two");
            }
        }
        if want {
            obs.class("match");
        }
        return Ok(());
    }
    match match m::glob_classify(p) {
        m::GlobKind::OutsideSubset => {
            // a run of exactly two '*' outside a set: the statement leaves '**' open
            obs.excluded = true;
            return Ok(());
        }
        m::GlobKind::Malformed => None,
        m::GlobKind::WellFormed(t) => Some(t),
    } {
        None => {
            // malformed (unclosed or empty set, three or more '*' in a row outside a set): must be
            // reported at compile time
            if compiled.is_ok() {
                return Err(format!("malformed glob {:?} was accepted by Pattern::new", p));
            }
            obs.class("malformed-rejected");
            obs.nontrivial = true;
            Ok(())
        }
        Some(toks) => {
            let pat = compiled.map_err(|e| format!("well-formed glob {:?} rejected: {}", p, e))?;
            let got = pat.matches(&c.name);
            let want = m::glob_matches(&toks, &c.name);
            obs.verdicts += 1;
            if pat.matches(&c.name) != got || Pattern::new(p).map(|q| q.matches(&c.name)).ok() != Some(got) {
                return Err(format!("glob {:?} matches({:?}) answers differently when asked again / compiled again", p, c.name));
            }
            if got != want {
                return Err(format!("glob {:?} matches({:?}) = {}, shell-glob model says {}", p, c.name, got, want));
            }
            obs.nontrivial = true;
            obs.class("glob");
            obs.class(if want { "match" } else { "no-match" });
            let pc: Vec<char> = p.chars().collect();
            if pc.iter().take(2).any(|c| ['*', '?', '[', ']'].contains(c)) {
                obs.class("meta-in-first-two");
            }
            if c.name.chars().count() < 2 {
                obs.class("name-shorter-than-2");
            }
            Ok(())
        }
    }
}

// ------------------------------------------------------------------ fast reject x other kinds

/// dewey patterns with very short bases: the early rejection sits in Pattern only, so the
/// stand-alone Dewey matcher is the reference ("never changes an answer for any kind of pattern")
fn dewey_strategy(_t: Tier) -> BoxedStrategy<Case> {
    let base = prop_oneof![
        3 => prop::sample::select(vec!["", "R", "p", "-", "a-", "ab", "_", ".", "é", "1", "*", "?", "[", "P5"]).prop_map(String::from),
        1 => crate::engine::gen::latin1_char().prop_map(|c| c.to_string()),
        1 => "[a-zA-Z0-9._+-]{0,3}",
    ];
    (base, prop::sample::select(vec![">=", ">", "<", "<="]), prop::sample::select(vec!["1", "0", "2.0", "", "1nb1"]), prop::option::of((prop::sample::select(vec!["<", "<="]), prop::sample::select(vec!["3", "2"]))), 0u8..8, prop::sample::select(vec!["1", "2", "0.5", "2.0", "3", ""]))
        .prop_map(|(b, op, v, upper, rel, ver)| {
            let mut pattern = format!("{}{}{}", b, op, v);
            if let Some((o2, v2)) = upper {
                if op.starts_with('>') {
                    pattern = format!("{}{}{}", pattern, o2, v2);
                }
            }
            let nb = match rel {
                0 => format!("x{}", b),
                1 => b.to_uppercase(),
                2 => b.chars().skip(1).collect(),
                _ => b.clone(),
            };
            Case { pattern, name: format!("{}-{}", nb, ver) }
        })
        .boxed()
}

pub fn check_dewey(c: &Case, obs: &mut Obs) -> Result<(), String> {
    let (Ok(p), Ok(d)) = (Pattern::new(&c.pattern), pkgsrc::Dewey::new(&c.pattern)) else {
        obs.excluded = true;
        return Ok(());
    };
    let (got, want) = (p.matches(&c.name), d.matches(&c.name));
    obs.verdicts += 1;
    if got != want {
        return Err(format!(
            "Pattern {:?} matches({:?}) = {} but the stand-alone Dewey matcher (no early rejection) says {}",
            c.pattern, c.name, got, want
        ));
    }
    obs.nontrivial = true;
    obs.class(if want { "dewey-match" } else { "dewey-no-match" });
    Ok(())
}

// ------------------------------------------------------------------ realistic stream

fn real_strategy(_t: Tier) -> BoxedStrategy<Case> {
    let pats: Vec<&'static str> =
        crate::props::c17::SEED_PKGDEPS.lines().filter(|l| !l.is_empty() && !l.contains(['<', '>', '{', '}'])).collect();
    let names: Vec<&'static str> = crate::props::c17::SEED_PKGNAMES.lines().filter(|l| !l.is_empty()).collect();
    (0..pats.len(), 0..names.len(), 0u8..10, any::<u8>(), any::<u16>())
        .prop_map(move |(i, j, mode, mk, sel)| {
            let pattern = pats[i].to_string();
            let lit: String = pattern.chars().take_while(|c| !['*', '?', '['].contains(c)).collect();
            let nm = names[j];
            let ver = nm.rsplit('-').next().unwrap_or("");
            let name = match mode {
                0..=3 => format!("{}{}", lit, ver),
                4..=5 => mutate(&format!("{}{}", lit, ver), mk, sel),
                6 => format!("{}x-{}", lit.trim_end_matches('-'), ver),
                7 => pattern.clone(),
                _ => nm.to_string(),
            };
            Case { pattern, name }
        })
        .boxed()
}

pub fn property() -> Property {
    Property {
        id: "C05",
        rule: "Patterns without { } < >: token lists (<= 10) of literals (letters of both cases, digits, - . _ + é), '*' (never adjacent to another '*'), '?', '[set]' / '[!set]' with 1-3 members (single alphanumerics or ascending ranges) and a literal ']'; shapes forced often: metacharacter in position 0 or 1, 0-2-token patterns, plain patterns. Names: an instance of the pattern, then with probability 1/2 one mutation (change first / second / last / any character, delete, insert, truncate to 0/1/2 characters, drop first/second character, append). Separate stream of malformed globs (unclosed '[', '***'). Oracle: with a metacharacter -> compiles iff well-formed and matches iff M-glob (own shell-glob matcher) does; without -> matches iff byte-identical. Non-trivial = the pattern has a metacharacter, or the name differs from a plain pattern in exactly one of its first two characters. Distinct = distinct (pattern, name). Generators also draw, at low weight, tokens from the source-literal dictionary (every string / byte / character literal of the library's own source, collected at build time and filtered by this domain's character class) (as glob literals and as name prefixes / suffixes); set members include ^ ! ] \\ * ?; stream dialect: POSIX classes, '^' negation, backslash escapes, ']' / '!' inside a set - ordinary characters in this dialect - against short names over the characters involved.",
        assumptions: vec![
            "names with a leading '.' or containing '/' and patterns with '**' are outside the generated subset (shell and crate conventions differ there)",
            "set members are alphanumerics, '[' '.' '+' '_' ',' 'é' and ascending alphanumeric ranges (no '-', ']', '^', '!' as members)",
        ],
        streams: vec![
            random_stream("patterns", "grammar-generated glob / plain patterns against instances and mutations", case_strategy, |t| t.pick(200_000, 10_000_000), check),
            random_stream("dialect", "syntax of other glob dialects (POSIX classes, '^', backslash, ']' / '!' inside a set) against short names over the characters involved", dialect_strategy, |t| t.pick(20_000, 1_000_000), check),
            random_stream("dewey-fast-reject", "dewey patterns with 0-3 character bases: Pattern (with the early rejection) against the stand-alone Dewey matcher", dewey_strategy, |t| t.pick(30_000, 1_000_000), check_dewey),
            random_stream("malformed", "malformed globs must be rejected at compile time", malformed_strategy, |t| t.pick(200, 2_000), check),
            random_stream("realistic", "real pkgsrc glob / plain patterns (sample of tests/data/pkgdeps.txt) against real package names built on their literal prefix", real_strategy, |t| t.pick(60_000, 5_000_000), check),
            crate::fuzz::replay_stream(),
        ],
        selfcheck: m::selfcheck,
        hang_is_violation: false,
        min_nontrivial_share: 0.2,
        extra: Some(crate::fuzz::extra),
    }
}
