//! Generators for pkg_summary values, assignments and call histories (C07-C09, C17).

use crate::engine::gen::idx;
use crate::models::summary::{Assignment, Call, Kind, Val, VARS};
use proptest::prelude::*;
use proptest::strategy::BoxedStrategy;

/// text without CR / LF
pub fn text() -> BoxedStrategy<String> {
    prop_oneof![
        6 => prop::sample::select(vec![
            "", "=", "a=b=c", " lead", "trail ", "\tTab", "é", "💖", "x y z", "devel pkgtools", "2019-08-12 15:58:02 +0100",
            "x86_64", "Darwin", "18.7.0", "testpkg-1.0", "pkgtools/testpkg", "20091115", "A test description",
            "VAR=value", "==", "\u{2028}", "\u{85}x", "a\u{0}b", "日本語", "ß=ü", "-1.0", "test-pkg-", "a-b-1.0nb2",
            "\u{feff}bom", "x\u{feff}", "\u{130}stanbul", "\u{23a}\u{23e}", "stra\u{df}e", "\u{fb01}le", "\u{212a}elvin", "\u{1f0}", "back\\nslash \\t \\\\ \\", "C:\\new\\dir", "%s\\n", "tab\there", "\\", "\"quoted\"", "'", "$(x)", "`y`",
        ]).prop_map(String::from),
        2 => "[ -~]{0,24}",
        // tokens the library's own source spells out, alone or joined
        2 => (dict_word(), prop::option::weighted(0.4, (prop::sample::select(vec!["=", " ", "-", "", ".", "/"]), dict_word())))
            .prop_map(|(a, b)| match b { Some((sep, b)) => format!("{}{}{}", a, sep, b), None => a }),
        1 => "[ -~]{100,700}",
        // a run of multi-byte characters behind a chosen number of ASCII bytes (some offset of
        // the line then falls inside a character)
        1 => (crate::engine::gen::interesting_len(700), prop::sample::select(vec!["é", "日", "💖", "ß"]), 4usize..12, any::<bool>())
            .prop_map(|(n, ch, k, tail)| format!("{}{}{}", "a".repeat(n), ch.repeat(k), if tail { " tail" } else { "" })),
        1 => prop::collection::vec(any::<char>().prop_filter("no CR/LF", |c| *c != '\r' && *c != '\n'), 0..8)
            .prop_map(|v| v.into_iter().collect::<String>()),
    ]
    .boxed()
}

fn no_line_break(c: char) -> bool {
    c != '\r' && c != '\n'
}

/// a token of the library's source without CR / LF
pub fn dict_word() -> BoxedStrategy<String> {
    crate::engine::dict::string_token(no_line_break, "a")
}

/// shorter, for the streaming checks: multi-byte characters at the start, the end and next to '='
pub fn stream_text() -> BoxedStrategy<String> {
    prop_oneof![
        7 => prop::sample::select(vec![
            "", "a", "é", "x=é", "é=x", "💖", "日本", "a b", "=", "ßa", "aß", "1.0", "€uro", "x€", "\u{7ff}\u{800}\u{ffff}\u{10000}",
            "\u{feff}", "\u{feff}x", "x\u{feff}y", "\\n", "trail ", "tab\t", " lead", " ", "a  b", "sha1 00", "x \t", "progress\rbar", "a\rb\rc", "\u{fffd}", "x\u{fffd}y", "\u{fffe}", "\u{e000}", "\u{7f}del", "nul\u{0}byte",
            "pkg-1.0", "cat/pkg",
        ])
        .prop_map(String::from),
        1 => dict_word(),
    ]
    .boxed()
}

pub fn int() -> BoxedStrategy<i64> {
    prop_oneof![
        4 => prop::sample::select(vec![0i64, 1, -1, i64::MIN, i64::MAX, 4321, 10]),
        2 => any::<i64>(),
        2 => 0i64..100_000,
        // numbers the library's own source mentions, and their neighbours
        1 => crate::engine::dict::int_token(0, i64::MAX as u64).prop_map(|n| n as i64),
        1 => (crate::engine::gen::interesting_u64(i64::MAX as u64), any::<bool>()).prop_map(|(n, neg)| if neg { -(n as i64) } else { n as i64 }),
    ]
    .boxed()
}

pub fn value(kind: Kind, txt: fn() -> BoxedStrategy<String>) -> BoxedStrategy<Val> {
    match kind {
        Kind::Scalar => txt().prop_map(Val::S).boxed(),
        Kind::Int => int().prop_map(Val::I).boxed(),
        // one list in twenty-five is long (dozens of lines)
        Kind::List => prop_oneof![24 => prop::collection::vec(txt(), 1..=4), 1 => prop::collection::vec(txt(), 20..90)].prop_map(Val::L).boxed(),
    }
}

/// all 11 required variables plus a random subset of the optional ones
pub fn assignment(txt: fn() -> BoxedStrategy<String>) -> BoxedStrategy<Assignment> {
    let per_var: Vec<BoxedStrategy<Option<Val>>> = VARS
        .iter()
        .map(|(_, k, req)| {
            if *req {
                value(*k, txt).prop_map(Some).boxed()
            } else {
                prop::option::weighted(0.4, value(*k, txt)).boxed()
            }
        })
        .collect();
    per_var
        .prop_map(|vals| {
            let mut a = Assignment::new();
            for (i, v) in vals.into_iter().enumerate() {
                if let Some(v) = v {
                    a.insert(i, v);
                }
            }
            // fields of real entries are correlated: FILE_NAME is usually PKGNAME + ".tgz",
            // PKGPATH often ends in the package base
            let pkgname = match a.get(&15) {
                Some(Val::S(s)) => s.clone(),
                _ => String::new(),
            };
            // FILE_CKSUM is "<digest name> <hash>"; the name comes in any letter case
            if let Some(Val::S(c)) = a.get(&6).cloned() {
                if c.len() % 3 == 0 {
                    let names = ["SHA1", "sha1", "Sha1", "sha256", "SHA256", "BLAKE2s", "blake2s", "BLAKE2S", "rmd160", "RMD160", "md5", "Md5", "sha512", "SHA3", "cksum"];
                    let n = names[(c.len() / 3) % names.len()];
                    a.insert(6, Val::S(format!("{} {}", n, if c.is_empty() { "da39a3ee5e6b4b0d3255bfef95601890afd80709" } else { c.as_str() })));
                }
            }
            if let Some(Val::S(f)) = a.get(&7).cloned() {
                match f.len() % 4 {
                    0 => {
                        a.insert(7, Val::S(format!("{}.tgz", pkgname)));
                    }
                    1 => {
                        a.insert(7, Val::S(pkgname.clone()));
                    }
                    _ => {}
                }
            }
            a
        })
        .boxed()
}

/// how one variable's final value is realised by calls
#[derive(Clone, Debug)]
pub struct Recipe {
    pub junk: Vec<Val>,
    pub mode: u8,
    pub split: u16,
}

fn recipe(kind: Kind) -> BoxedStrategy<Recipe> {
    (prop::collection::vec(value(kind, text), 0..=2), 0u8..4, any::<u16>())
        .prop_map(|(junk, mode, split)| Recipe { junk, mode, split })
        .boxed()
}

fn calls_for(i: usize, fin: &Val, r: &Recipe) -> Vec<Call> {
    let mut out = vec![];
    match (fin, r.mode) {
        (Val::L(l), 1) => {
            // junk sets, set(prefix), push the rest
            for j in &r.junk {
                out.push(Call::Set(i, j.clone()));
            }
            let k = 1 + idx(r.split, l.len()); // prefix of 1..=len
            out.push(Call::Set(i, Val::L(l[..k].to_vec())));
            for s in &l[k..] {
                out.push(Call::Push(i, s.clone()));
            }
        }
        (Val::L(l), 3) => {
            // junk sets, the list emptied with set(&[]), then pushes only
            for j in &r.junk {
                out.push(Call::Set(i, j.clone()));
            }
            out.push(Call::Set(i, Val::L(vec![])));
            for s in l {
                out.push(Call::Push(i, s.clone()));
            }
        }
        (Val::L(l), 2) => {
            // pushes only (a preceding set would survive, so no junk here)
            for s in l {
                out.push(Call::Push(i, s.clone()));
            }
        }
        _ => {
            for j in &r.junk {
                out.push(Call::Set(i, j.clone()));
            }
            out.push(Call::Set(i, fin.clone()));
        }
    }
    out
}

/// interleave per-variable call runs, keeping each variable's own order
fn interleave(mut runs: Vec<Vec<Call>>, sels: &[u16]) -> Vec<Call> {
    let mut out = vec![];
    let mut k = 0usize;
    runs.retain(|r| !r.is_empty());
    for r in runs.iter_mut() {
        r.reverse();
    }
    while !runs.is_empty() {
        let sel = sels[k % sels.len()].wrapping_add((k as u16).wrapping_mul(25173));
        let i = idx(sel, runs.len());
        out.push(runs[i].pop().unwrap());
        if runs[i].is_empty() {
            runs.remove(i);
        }
        k += 1;
    }
    out
}

/// a history realising `a`
pub fn history(a: Assignment) -> BoxedStrategy<Vec<Call>> {
    let recipes: Vec<BoxedStrategy<Recipe>> = a.keys().map(|i| recipe(VARS[*i].1)).collect();
    (recipes, prop::collection::vec(any::<u16>(), 16))
        .prop_map(move |(rs, sels)| {
            let runs: Vec<Vec<Call>> =
                a.iter().zip(rs.iter()).map(|((i, v), r)| calls_for(*i, v, r)).collect();
            interleave(runs, &sels)
        })
        .boxed()
}
