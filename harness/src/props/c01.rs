//! C01 — version comparison follows pkg_install's dewey ordering.

use crate::engine::*;
use crate::models::dewey::{self as m, Letters, Op, OPS};
use crate::props::vergen;
use pkgsrc::{Dewey, Pattern};
use proptest::prelude::*;
use serde::{Deserialize, Serialize};
use std::cmp::Ordering;

#[derive(Clone, Debug, Serialize, Deserialize)]
pub struct PairCase {
    pub a: String,
    pub b: String,
}

pub const KF1: &str = "KF-1";

fn in_domain(s: &str, allow_dash: bool) -> bool {
    !s.contains(['<', '>', '{', '}'])
        && (allow_dash || !s.contains('-'))
        && !s.starts_with('=')
        && m::numbers_in_domain(s)
}

/// compare one verdict with the model, honouring the KF-1 region
fn judge(
    what: &str,
    got: bool,
    x: &str,
    op: Op,
    y: &str,
    obs: &mut Obs,
    strict: bool,
) -> Result<(), String> {
    let want = m::verdict(x, op, y, Letters::Rank);
    let ascii = m::verdict(x, op, y, Letters::AsciiLower);
    obs.verdicts += 1;
    if want != ascii && !strict {
        // inside the signature of known finding KF-1: rank and ASCII-code encodings disagree
        if got == want {
            return Ok(()); // the defect is gone for this input
        }
        obs.known_hits.push(KF1);
        return Ok(());
    }
    if got != want {
        return Err(format!(
            "{}: version '{}' {} '{}' should be {} (dewey order), library says {}",
            what,
            x,
            op.text(),
            y,
            want,
            got
        ));
    }
    Ok(())
}

fn verdicts_for(x: &str, y: &str, obs: &mut Obs, strict: bool) -> Result<(), String> {
    // x is the package's version, y the pattern bound
    let name = format!("b-{}", x);
    for op in OPS {
        let pat = format!("b{}{}", op.text(), y);
        let p = Pattern::new(&pat).map_err(|e| format!("Pattern::new({:?}) failed: {}", pat, e))?;
        judge("Pattern::matches", p.matches(&name), x, op, y, obs, strict)?;
        let d = Dewey::new(&pat).map_err(|e| format!("Dewey::new({:?}) failed: {}", pat, e))?;
        judge("Dewey::matches", d.matches(&name), x, op, y, obs, strict)?;
    }
    // the same bound on both sides of a range: the conjunction of the two single verdicts
    for (o1, o2) in [(Op::Ge, Op::Le), (Op::Gt, Op::Le), (Op::Ge, Op::Lt), (Op::Gt, Op::Lt)] {
        let pat = format!("b{}{}{}{}", o1.text(), y, o2.text(), y);
        let p = Pattern::new(&pat).map_err(|e| format!("Pattern::new({:?}) failed: {}", pat, e))?;
        let want = m::verdict(x, o1, y, Letters::Rank) && m::verdict(x, o2, y, Letters::Rank);
        let ascii = m::verdict(x, o1, y, Letters::AsciiLower) && m::verdict(x, o2, y, Letters::AsciiLower);
        let got = p.matches(&name);
        obs.verdicts += 1;
        if got == want {
            continue;
        }
        if want != ascii && !strict {
            obs.known_hits.push(KF1);
            continue;
        }
        return Err(format!(
            "Pattern::matches: '{}' on version '{}' = {}, but '{}' {} '{}' is {} and '{}' {} '{}' is {} (dewey order)",
            pat, x, got, x, o1.text(), y, m::verdict(x, o1, y, Letters::Rank), x, o2.text(), y, m::verdict(x, o2, y, Letters::Rank)
        ));
    }
    Ok(())
}

pub fn best_match_expect<'a>(n1: &'a str, v1: &str, n2: &'a str, v2: &str, l: Letters) -> &'a str {
    match m::cmp(v1, v2, l) {
        Ordering::Greater => n1,
        Ordering::Less => n2,
        Ordering::Equal => {
            if n1.as_bytes() < n2.as_bytes() {
                n1
            } else {
                n2
            }
        }
    }
}

pub fn check_pair(c: &PairCase, obs: &mut Obs) -> Result<(), String> {
    check_pair_inner(c, obs, false)
}

/// no leniency for the KF-1 region: used for the known finding's witness and for regressions
pub fn check_pair_strict(c: &PairCase, obs: &mut Obs) -> Result<(), String> {
    check_pair_inner(c, obs, true)
}

fn check_pair_inner(c: &PairCase, obs: &mut Obs, strict: bool) -> Result<(), String> {
    let (a, b) = (c.a.as_str(), c.b.as_str());
    if !in_domain(a, false) || !in_domain(b, true) {
        obs.excluded = true;
        return Ok(());
    }
    let va = m::mk(a, Letters::Rank);
    let vb = m::mk(b, Letters::Rank);
    let common = va.comps.iter().zip(vb.comps.iter()).take_while(|(x, y)| x == y).count();
    obs.nontrivial = a != b && (va.comps.len() != vb.comps.len() || common >= 1);
    if va.comps.len() != vb.comps.len() {
        obs.class("unequal-length");
    }
    if a != b && m::cmp_versions(&va, &vb) == Ordering::Equal {
        obs.class("tie-different-text");
    }
    if va.rev != vb.rev {
        obs.class("revision-differs");
    }
    let lower = format!("{}{}", a, b).to_ascii_lowercase();
    if lower.contains("pre") {
        obs.class("has-pre");
    }
    if a.chars().chain(b.chars()).any(|ch| ch.is_ascii_uppercase()) {
        obs.class("has-uppercase");
    }
    if !a.is_ascii() || !b.is_ascii() {
        obs.class("has-non-ascii");
    }

    verdicts_for(a, b, obs, strict)?;
    if !b.contains('-') {
        verdicts_for(b, a, obs, strict)?;
        obs.class("both-directions");
        // best_match over the two candidates
        let (n1, n2) = (format!("b-{}", a), format!("b-{}", b));
        let p = Pattern::new("b-*").map_err(|e| e.to_string())?;
        if !p.matches(&n1) || !p.matches(&n2) {
            return Err(format!("'b-*' must match both {:?} and {:?}", n1, n2));
        }
        // (and over two candidates whose bases differ in length: 'b*' matches both)
        let n3 = format!("bcd-{}", b);
        let p2 = Pattern::new("b*").map_err(|e| e.to_string())?;
        for (x, vx, y, vy) in [(&n1, a, &n3, b), (&n3, b, &n1, a)] {
            let got = p2.best_match(x, y);
            let want = best_match_expect(x, vx, y, vy, Letters::Rank);
            let ascii = best_match_expect(x, vx, y, vy, Letters::AsciiLower);
            obs.verdicts += 1;
            if got == Some(want) {
                continue;
            }
            if want != ascii && got == Some(ascii) && !strict {
                obs.known_hits.push(KF1);
                continue;
            }
            return Err(format!("best_match('b*', {:?}, {:?}) = {:?}, dewey order says {:?}", x, y, got, want));
        }
        for (x, vx, y, vy) in [(&n1, a, &n2, b), (&n2, b, &n1, a)] {
            let got = p.best_match(x, y);
            let want = best_match_expect(x, vx, y, vy, Letters::Rank);
            let ascii = best_match_expect(x, vx, y, vy, Letters::AsciiLower);
            obs.verdicts += 1;
            if got == Some(want) {
                continue;
            }
            if want != ascii && got == Some(ascii) && !strict {
                obs.known_hits.push(KF1);
                continue;
            }
            return Err(format!(
                "best_match('b-*', {:?}, {:?}) = {:?}, dewey order says {:?}",
                x, y, got, want
            ));
        }
    }
    if !obs.known_hits.is_empty() {
        obs.class("kf1-region");
    }
    Ok(())
}

fn pair_strategy(tier: Tier) -> BoxedStrategy<PairCase> {
    let max = tier.pick(10, 12);
    (vergen::pair(max), prop::option::weighted(0.08, any::<u16>()))
        .prop_map(|((a, b), dash)| {
            // '-' may appear only in the pattern bound (it is ignored there)
            let a = a.replace('-', "");
            let mut b = b.replace('-', "");
            if let Some(sel) = dash {
                let cs: Vec<char> = b.chars().collect();
                let k = crate::engine::gen::idx(sel, cs.len() + 1);
                b = cs[..k].iter().chain(['-'].iter()).chain(cs[k..].iter()).collect();
            }
            PairCase { a, b }
        })
        .boxed()
}

/// a stream with plain "realistic" versions (numbers, dots, one suffix) so that common
/// shapes are covered densely
fn simple_strategy(_tier: Tier) -> BoxedStrategy<PairCase> {
    let num = prop_oneof![4 => (0u32..4).prop_map(|n| n.to_string()), 1 => (0u32..30).prop_map(|n| n.to_string())];
    let core = prop::collection::vec(num, 1..=4).prop_map(|v| v.join("."));
    let suffix = prop::sample::select(vec![
        "", "", "", "a", "b", "A", "rc1", "RC1", "pre1", "PRE2", "alpha", "ALPHA1", "beta2", "Beta",
        "pl1", "PL", "nb1", "nb2", "NB1", "nb", ".0", "_0", "a1", "rc", "pre", "z", "Z",
    ])
    .prop_map(String::from);
    let ver = (core, suffix.clone(), prop::option::weighted(0.3, 0u32..4))
        .prop_map(|(c, s, nb)| match nb {
            Some(n) => format!("{}{}nb{}", c, s, n),
            None => format!("{}{}", c, s),
        })
        .boxed();
    (ver.clone(), ver).prop_map(|(a, b)| PairCase { a, b }).boxed()
}

/// versions of real pkgsrc packages (sample of tests/data/pkgnames.txt), paired with an edited copy
fn real_strategy(_t: Tier) -> BoxedStrategy<PairCase> {
    let vers: Vec<&'static str> = crate::props::c17::SEED_PKGNAMES
        .lines()
        .filter_map(|l| l.rsplit_once('-').map(|(_, v)| v))
        .filter(|v| !v.is_empty() && !v.contains(['<', '>', '{', '}']))
        .collect();
    (0..vers.len(), 0..vers.len(), prop::collection::vec(vergen::edit(), 0..=2), any::<bool>())
        .prop_map(move |(i, j, edits, same)| {
            let a = vers[i].to_string();
            // B: the same real version after 0-2 edits on its character-level tokens, or another real one
            let b = if same {
                let mut toks: Vec<String> = a.chars().map(|c| c.to_string()).collect();
                for e in &edits {
                    vergen::apply_edit(&mut toks, e);
                }
                toks.concat().replace('-', "")
            } else {
                vers[j].to_string()
            };
            PairCase { a: m::cap_digit_runs(&a, 18), b: m::cap_digit_runs(&b, 18) }
        })
        .boxed()
}

pub const ENUM_TOKENS: [&str; 16] = ["0", "1", "2", "10", ".", "_", "alpha", "beta", "pre", "rc", "pl", "nb1", "nb", "a", "B", "é"];

fn enum_versions(max_len: usize) -> Vec<String> {
    let mut out = vec![String::new()];
    let mut cur = vec![String::new()];
    for _ in 0..max_len {
        let mut next = Vec::with_capacity(cur.len() * ENUM_TOKENS.len());
        for v in &cur {
            for t in ENUM_TOKENS {
                next.push(format!("{}{}", v, t));
            }
        }
        out.extend(next.iter().cloned());
        cur = next;
    }
    out.sort();
    out.dedup();
    out
}

/// every ordered pair of versions built from at most 2 (thorough: 3) of 16 tokens
fn enumerate(tier: Tier) -> Box<dyn Iterator<Item = PairCase>> {
    let vs = std::sync::Arc::new(enum_versions(tier.pick(2, 3)));
    let n = vs.len();
    let vs2 = vs.clone();
    Box::new((0..n * n).map(move |k| PairCase { a: vs2[k / n].clone(), b: vs2[k % n].clone() }))
}

/// pairs of versions that differ only in one number, both numbers next to the same power of two
/// or ten (where a narrower type or a packed representation would change its behaviour), at
/// three positions of the version
fn enumerate_magnitudes(_t: Tier) -> Box<dyn Iterator<Item = PairCase>> {
    let ns = crate::engine::gen::magnitude_neighbours(i64::MAX as u64);
    let mut out = vec![];
    for (i, a) in ns.iter().enumerate() {
        for b in ns.iter().skip(i.saturating_sub(3)).take(7) {
            for (pre, post) in [("", ""), ("1.", ""), ("1.", ".0.0.0.0.0.0.0.1"), ("", "rc1"), ("2.0nb", "")] {
                out.push(PairCase { a: format!("{}{}{}", pre, a, post), b: format!("{}{}{}", pre, b, post) });
            }
            out.push(PairCase { a: format!("1.{}", a), b: format!("1.{}.0.0.0.0.0.0.0.1", b) });
        }
    }
    Box::new(out.into_iter())
}

pub fn property() -> Property {
    Property {
        id: "C01",
        rule: "Correlated pairs (A, B) of version strings built from tokens (numbers incl. leading zeros and up to 18 digits, '.', '_', alpha/beta/pre/rc/pl and nb<N> in random case, single letters in both cases, ignorable junk incl. non-ASCII, near-modifiers); B is A after 0-3 edits. A further stream enumerates completely all ordered pairs of versions made of at most 2 (thorough: 3) of the 16 tokens 0 1 2 10 . _ alpha beta pre rc pl nb1 nb a B é. Each pair is judged for all four operators through Pattern::matches and Dewey::matches in both directions and through best_match, against reference model M-dewey. Non-trivial = A and B differ textually AND their component sequences differ in length or share a common prefix of >= 1 component (the decision is not taken on the first number). Distinct = distinct (A,B) strings. Cases inside known finding KF-1 (letter encoded by ASCII code instead of alphabet rank changes the verdict) are judged leniently and counted under known_finding_hits. Generators also draw, at low weight, tokens from the source-literal dictionary (every string / byte / character literal of the library's own source, collected at build time and filtered by this domain's character class); number tokens include 2^k and 10^k with neighbours; one pair in sixty shares a prefix of a chosen number (0-1300) of components. Stream real-versions: the versions of real pkgsrc packages against character-level edits of themselves and against each other.",
        assumptions: vec![
            "M-dewey is written from the property statement (pkg_install itself is not available offline)",
            "digit runs are capped at 18 digits (domain of the property)",
            "'-' appears only inside pattern bounds; '<' '>' '{' '}' never appear in versions",
        ],
        streams: vec![
            random_stream(
                "pairs",
                "token-built correlated pairs, all operators, both directions, best_match",
                pair_strategy,
                |t| t.pick(150_000, 3_000_000),
                check_pair,
            ),
            random_stream(
                "simple",
                "dotted numbers with one modifier/letter suffix and optional nb",
                simple_strategy,
                |t| t.pick(60_000, 1_000_000),
                check_pair,
            ),
            random_stream(
                "real-versions",
                "versions of real pkgsrc packages against edited copies and against each other",
                real_strategy,
                |t| t.pick(60_000, 1_000_000),
                check_pair,
            ),
            enumerated_stream(
                "magnitudes",
                "pairs differing in one number, both next to the same 2^k / 10^k, at several positions of the version",
                enumerate_magnitudes,
                check_pair,
            ),
            enumerated_stream(
                "small-exhaustive",
                "all ordered pairs of versions made of at most 2 (thorough: 3) tokens out of 16",
                enumerate,
                check_pair,
            ),
            random_stream(
                "pairs-strict",
                "replay-only: same oracle without the KF-1 leniency (witness of the known finding)",
                pair_strategy,
                |_| 0,
                check_pair_strict,
            ),
            crate::fuzz::replay_stream(),
        ],
        selfcheck: m::selfcheck,
        hang_is_violation: false,
        min_nontrivial_share: 0.05,
        extra: Some(crate::fuzz::extra),
    }
}
