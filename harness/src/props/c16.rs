//! C16 — pbulk-index output splits into one record per PKGNAME, fields never leaking.

use crate::engine::gen::idx;
use crate::engine::*;
use pkgsrc::{Depend, PkgName, PkgPath, ScanIndex};
use proptest::prelude::*;
use serde::{Deserialize, Serialize};
use std::collections::BTreeMap;
use std::io::{self, BufReader, Read};
use std::path::PathBuf;

#[derive(Clone, Debug, Serialize, Deserialize)]
pub struct Case {
    pub lines: Vec<String>,
    pub final_newline: bool,
    /// read schedule: chunk sizes; 0 = Interrupted
    pub chunks: Vec<u16>,
    /// inject a hard I/O error at this read call (None = no fault); `all_reads` runs one
    /// execution per possible position instead
    pub fail_at: Option<u16>,
    pub all_reads: bool,
}

pub const SCALARS: [&str; 11] = [
    "PKG_LOCATION", "PKG_SKIP_REASON", "PKG_FAIL_REASON", "NO_BIN_ON_FTP", "RESTRICTED", "CATEGORIES", "MAINTAINER",
    "USE_DESTDIR", "BOOTSTRAP_PKG", "USERGROUP_PHASE", "PBULK_WEIGHT",
];
pub const LISTS: [&str; 3] = ["ALL_DEPENDS", "SCAN_DEPENDS", "MULTI_VERSION"];

// ------------------------------------------------------------------ M-scan

#[derive(Clone, Debug, Default, PartialEq)]
struct Record {
    pkgname: String,
    fields: BTreeMap<String, String>,
}

/// record segmentation on 'PKGNAME=' lines, key/value at the first '=', both trimmed, last wins
fn model(text: &str) -> Result<Vec<Record>, String> {
    let mut out: Vec<Record> = vec![];
    let mut cur: Option<Record> = None;
    let mut orphan = false;
    for raw in text.split('\n') {
        let line = raw.trim();
        if line.is_empty() {
            continue;
        }
        if let Some(v) = line.strip_prefix("PKGNAME=") {
            if let Some(r) = cur.take() {
                out.push(r);
            }
            cur = Some(Record { pkgname: v.trim().to_string(), fields: BTreeMap::new() });
            continue;
        }
        match &mut cur {
            Some(r) => {
                if let Some(eq) = line.find('=') {
                    r.fields.insert(line[..eq].trim().to_string(), line[eq + 1..].trim().to_string());
                }
            }
            None => orphan = true, // a block without PKGNAME
        }
    }
    if let Some(r) = cur.take() {
        out.push(r);
    }
    if orphan {
        return Err("block without PKGNAME".into());
    }
    for r in &out {
        if let Some(v) = r.fields.get("ALL_DEPENDS") {
            for item in v.split_whitespace() {
                if !depend_ok(item) {
                    return Err(format!("invalid ALL_DEPENDS item {:?}", item));
                }
            }
        }
        if let Some(v) = r.fields.get("PKG_LOCATION") {
            if !crate::models::pkgpath::accepts(v) {
                return Err(format!("invalid PKG_LOCATION {:?}", v));
            }
        }
    }
    Ok(out)
}

fn depend_ok(item: &str) -> bool {
    // validity of dependency items is C19's business; the generator only uses items from the two
    // fixed pools below, so a table lookup is the oracle here
    GOOD_DEPENDS.contains(&item)
}

pub const GOOD_DEPENDS: [&str; 8] = [
    "mktool-[0-9]*:../../pkgtools/mktool", "pkg>=1.0:../../cat/pkg", "pkg>=1.0<2:cat/pkg", "{a,b}-[0-9]*:../../x/y", "foo-1.0:../../devel/foo",
    "p5-*:../../lang/perl5", "x<3:../../a/b", "lib?-[0-9]*:../../devel//libx/",
];
pub const BAD_DEPENDS: [&str; 8] =
    ["hello", "pkg>1>2:../../cat/pkg", "a:b:c", "pkg-[0-9*:../../cat/pkg", "pkg-1:cat", "pkg-1:../cat/pkg", "{a-1:../../c/p", ":"];
pub const GOOD_LOCATIONS: [&str; 4] = ["cat/pkg", "../../cat/pkg", "devel//libx/", "pkgtools/pkg_install"];
pub const BAD_LOCATIONS: [&str; 7] = ["cat", "../cat/pkg", "/cat/pkg", "a/b/c", "./a", "", "../../"];

// ------------------------------------------------------------------ generator

fn key_char(c: char) -> bool {
    c.is_ascii_uppercase() || c == '_'
}

fn scalar_char(c: char) -> bool {
    c != '\n' && c != '\r'
}

fn scalar_value() -> BoxedStrategy<String> {
    prop_oneof![
        3 => prop::sample::select(vec!["", "yes", "no", "a=b", "x y z", "  padded  ", "100", "é", "= lead", "user-destdir", "reason: broken", "a\rb", "x\rPKGNAME=evil-1.0", "cr at end\r", "\x0cff"]).prop_map(String::from),
        1 => "[ -~]{0,16}",
        1 => "[ a-cé=:\t]{0,8}",
        1 => crate::engine::dict::string_token(scalar_char, "a"),
    ]
    .boxed()
}

fn key_line(with_faults: bool) -> BoxedStrategy<String> {
    let pad = || prop::sample::select(vec!["", "", "", " ", "\t", "  "]);
    let good_dep = prop::collection::vec(0usize..GOOD_DEPENDS.len(), 0..=5).prop_map(|v| v.into_iter().map(|i| GOOD_DEPENDS[i]).collect::<Vec<_>>());
    let sep = prop::sample::select(vec![" ", " ", "  ", "\t"]);
    prop_oneof![
        20 => (1usize..SCALARS.len(), scalar_value(), pad(), pad()).prop_map(|(k, v, a, b)| format!("{}{}={}{}", a, SCALARS[k], v, b)),
        5 => (0usize..GOOD_LOCATIONS.len(), pad()).prop_map(|(i, a)| format!("{}PKG_LOCATION={}", a, GOOD_LOCATIONS[i])),
        8 => (good_dep, sep.clone()).prop_map(|(v, s)| format!("ALL_DEPENDS={}", v.join(s))),
        6 => (prop::collection::vec(prop::sample::select(vec!["../../a/b/Makefile", "/usr/pkgsrc/mk/x.mk", "../../c/d/options.mk", "é.mk"]), 0..=5), sep.clone()).prop_map(|(v, s)| format!("SCAN_DEPENDS={}", v.join(s))),
        5 => (prop::collection::vec(prop::sample::select(vec!["PYTHON_VERSION_REQD=312", "PHP_VERSION_REQD=83", "X=", "A=b=c"]), 0..=4), sep).prop_map(|(v, s)| format!("MULTI_VERSION={}", v.join(s))),
        // ignored lines
        5 => prop::sample::select(vec!["", "   ", "\t", "UNKNOWN_KEY=value", "no equals here", "lowercase=1", "PKGNAMES=x", "XPKGNAME=y", "=novalue", "KEY ="]).prop_map(String::from),
        // unknown keys spelled like identifiers of the library's own source, with values that
        // would matter if the key were taken for a known one
        3 => (crate::engine::dict::string_token(key_char, "X"), prop::sample::select(vec!["cat/pkg", "not a path", "foo-[0-9]*:../../a/b", "bad", "", "x y", "../../a/b"]))
            .prop_filter("not one of the 15 known keys", |(k, _)| k != "PKGNAME" && !SCALARS.contains(&k.as_str()) && !LISTS.contains(&k.as_str()) && k != "PKG_LOCATION")
            .prop_map(|(k, v)| format!("{}={}", k, v)),
        if with_faults { 2 } else { 0 } => (0usize..BAD_DEPENDS.len(), 0usize..GOOD_DEPENDS.len(), any::<bool>()).prop_map(|(b, g, first)| {
            if first { format!("ALL_DEPENDS={} {}", BAD_DEPENDS[b], GOOD_DEPENDS[g]) } else { format!("ALL_DEPENDS={} {}", GOOD_DEPENDS[g], BAD_DEPENDS[b]) }
        }),
        if with_faults { 2 } else { 0 } => (0usize..BAD_LOCATIONS.len()).prop_map(|i| format!("PKG_LOCATION={}", BAD_LOCATIONS[i])),
    ]
    .boxed()
}

fn pkgname_line() -> BoxedStrategy<String> {
    (prop::sample::select(vec!["foo-1.0", "py312-mysqlclient-2.2.4", "", "a=b-1", " spaced-1.0 ", "nodash", "é-1", "foo-1.0nb3", "foo-1.0"]), prop::sample::select(vec!["", "", " ", "\t"]))
        .prop_map(|(v, a)| format!("{}PKGNAME={}", a, v))
        .boxed()
}

fn lines_strategy(tier: Tier, faults: bool) -> BoxedStrategy<Vec<String>> {
    let max_rec = tier.pick(4, 6);
    // one record in twelve has a chosen number (0-40) of distinct unknown keys in front of, or
    // between, its other lines
    let record = (pkgname_line(), prop::collection::vec(key_line(faults), 0..10), prop::option::weighted(0.15, (crate::engine::gen::interesting_len(40), any::<u16>()))).prop_map(|(p, mut ls, many)| {
        if let Some((n, at)) = many {
            let k = idx(at, ls.len() + 1);
            for i in 0..n {
                ls.insert(k, format!("UNKNOWN_{}=v{}", i, i));
            }
            // and in front of one line another line that ends in that line's whole text (an
            // unknown key with a longer name, or a value that quotes the next line)
            if !ls.is_empty() {
                let j = idx(at.wrapping_mul(31), ls.len());
                let t = ls[j].trim().to_string();
                if !t.is_empty() && !t.starts_with("PKGNAME") {
                    let pre = if n % 2 == 0 { format!("MASTER_{}", t) } else { format!("PKG_SKIP_REASON=broken since {}", t) };
                    ls.insert(j, pre);
                }
            }
        }
        ls.insert(0, p);
        ls
    });
    let orphan = if faults {
        prop::option::weighted(0.15, prop::collection::vec(key_line(false), 1..3)).boxed()
    } else {
        Just(None).boxed()
    };
    (orphan, prop_oneof![60 => prop::collection::vec(record.clone(), 0..=max_rec), 1 => prop::collection::vec(record, 40..160)])
        .prop_map(|(o, recs)| {
            let mut lines = o.unwrap_or_default();
            for r in recs {
                lines.extend(r);
            }
            lines
        })
        .boxed()
}

fn chunks() -> BoxedStrategy<Vec<u16>> {
    prop::collection::vec(prop_oneof![3 => 1u16..40, 1 => Just(0u16), 1 => Just(1u16), 1 => 100u16..9000], 0..30).boxed()
}

pub fn clean_strategy(tier: Tier) -> BoxedStrategy<Case> {
    (lines_strategy(tier, false), any::<bool>(), chunks())
        .prop_map(|(lines, final_newline, chunks)| Case { lines, final_newline, chunks, fail_at: None, all_reads: false })
        .boxed()
}

pub fn fault_strategy(tier: Tier) -> BoxedStrategy<Case> {
    prop_oneof![
        // content faults
        2 => (lines_strategy(tier, true), any::<bool>(), chunks())
            .prop_map(|(lines, final_newline, chunks)| Case { lines, final_newline, chunks, fail_at: None, all_reads: false }),
        // I/O error at every read of the sequence
        1 => (lines_strategy(tier, false), any::<bool>(), chunks())
            .prop_map(|(lines, final_newline, chunks)| Case { lines, final_newline, chunks, fail_at: None, all_reads: true }),
    ]
    .boxed()
}

struct SchedReader<'a> {
    data: &'a [u8],
    pos: usize,
    chunks: &'a [u16],
    call: usize,
    fail_at: Option<usize>,
    failed: bool,
    interrupted: usize,
}

impl Read for SchedReader<'_> {
    fn read(&mut self, buf: &mut [u8]) -> io::Result<usize> {
        let call = self.call;
        self.call += 1;
        if Some(call) == self.fail_at {
            self.failed = true;
            let kinds = [io::ErrorKind::Other, io::ErrorKind::WouldBlock, io::ErrorKind::UnexpectedEof, io::ErrorKind::TimedOut, io::ErrorKind::BrokenPipe, io::ErrorKind::InvalidInput];
            return Err(io::Error::new(kinds[call % kinds.len()], "injected I/O error"));
        }
        let n = match self.chunks.get(call) {
            Some(0) => {
                self.interrupted += 1;
                return Err(io::Error::new(io::ErrorKind::Interrupted, "injected EINTR"));
            }
            Some(n) => *n as usize,
            None => 64,
        };
        let n = n.min(buf.len()).min(self.data.len() - self.pos);
        buf[..n].copy_from_slice(&self.data[self.pos..self.pos + n]);
        self.pos += n;
        Ok(n)
    }
}

fn compare(got: &[ScanIndex], want: &[Record]) -> Result<(), String> {
    if got.len() != want.len() {
        return Err(format!(
            "{} records returned, the input has {} 'PKGNAME=' lines ({:?} vs {:?})",
            got.len(),
            want.len(),
            got.iter().map(|g| g.pkgname.pkgname().to_string()).collect::<Vec<_>>(),
            want.iter().map(|w| w.pkgname.clone()).collect::<Vec<_>>()
        ));
    }
    for (i, (g, w)) in got.iter().zip(want.iter()).enumerate() {
        let ctx = |f: &str| format!("record #{} ({:?}) field {}", i, w.pkgname, f);
        if g.pkgname != PkgName::new(&w.pkgname) {
            return Err(format!("{}: {:?}", ctx("pkgname"), g.pkgname.pkgname()));
        }
        let scal = |k: &str| w.fields.get(k).cloned();
        let checks: [(&str, &Option<String>); 10] = [
            ("PKG_SKIP_REASON", &g.pkg_skip_reason),
            ("PKG_FAIL_REASON", &g.pkg_fail_reason),
            ("NO_BIN_ON_FTP", &g.no_bin_on_ftp),
            ("RESTRICTED", &g.restricted),
            ("CATEGORIES", &g.categories),
            ("MAINTAINER", &g.maintainer),
            ("USE_DESTDIR", &g.use_destdir),
            ("BOOTSTRAP_PKG", &g.bootstrap_pkg),
            ("USERGROUP_PHASE", &g.usergroup_phase),
            ("PBULK_WEIGHT", &g.pbulk_weight),
        ];
        for (k, v) in checks {
            if *v != scal(k) {
                return Err(format!("{}: got {:?}, the record's lines give {:?}", ctx(k), v, scal(k)));
            }
        }
        let want_loc = scal("PKG_LOCATION").map(|v| PkgPath::new(&v).map_err(|e| format!("{}: model accepted {:?} but PkgPath::new fails: {}", ctx("PKG_LOCATION"), v, e))).transpose()?;
        if g.pkg_location != want_loc {
            return Err(format!("{}: got {:?}, expected {:?}", ctx("PKG_LOCATION"), g.pkg_location, want_loc));
        }
        let items = |k: &str| -> Vec<String> { scal(k).map(|v| v.split_whitespace().map(String::from).collect()).unwrap_or_default() };
        let want_dep: Vec<Depend> = items("ALL_DEPENDS").iter().map(|d| Depend::new(d).map_err(|e| format!("{}: pool item {:?} rejected: {}", ctx("ALL_DEPENDS"), d, e))).collect::<Result<_, _>>()?;
        if g.all_depends != want_dep {
            return Err(format!("{}: got {} items, expected {:?}", ctx("ALL_DEPENDS"), g.all_depends.len(), items("ALL_DEPENDS")));
        }
        let want_scan: Vec<PathBuf> = items("SCAN_DEPENDS").iter().map(PathBuf::from).collect();
        if g.scan_depends != want_scan {
            return Err(format!("{}: got {:?}, expected {:?}", ctx("SCAN_DEPENDS"), g.scan_depends, want_scan));
        }
        if g.multi_version != items("MULTI_VERSION") {
            return Err(format!("{}: got {:?}, expected {:?}", ctx("MULTI_VERSION"), g.multi_version, items("MULTI_VERSION")));
        }
        if !g.depends.is_empty() {
            return Err(format!("{}: not empty", ctx("depends")));
        }
    }
    Ok(())
}

fn run_once(text: &[u8], c: &Case, fail_at: Option<usize>) -> (io::Result<Vec<ScanIndex>>, bool, usize, usize) {
    let mut r = SchedReader { data: text, pos: 0, chunks: &c.chunks, call: 0, fail_at, failed: false, interrupted: 0 };
    // the BufRead's own buffer size varies with the case (1 .. 8192 bytes)
    let cap = [32usize, 1, 7, 16, 64, 100, 1024, 8192][c.chunks.len() % 8];
    let res = {
        let br = BufReader::with_capacity(cap, &mut r);
        ScanIndex::from_reader(br)
    };
    (res, r.failed, r.call, r.interrupted)
}

pub fn check(c: &Case, obs: &mut Obs) -> Result<(), String> {
    for l in &c.lines {
        // domain: one line per element, no CR; 'PKGNAME' only as the exact 'PKGNAME=' prefix
        let t = l.trim();
        // white space other than blank and tab (VT, FF, U+0085, U+00A0, U+2028 ...): the statement
        // says "whitespace" / "trimmed" without saying which characters those are (see DESIGN 10.5)
        if l.chars().any(|ch| ch.is_whitespace() && !matches!(ch, ' ' | '\t' | '\r' | '\x0c')) {
            obs.excluded = true;
            return Ok(());
        }
        if l.contains('\n') || (t.starts_with("PKGNAME") && !t.starts_with("PKGNAME=") && t.split('=').next().map(|k| k.trim() == "PKGNAME").unwrap_or(false)) {
            obs.excluded = true;
            return Ok(());
        }
        // dependency / location items must come from the pools (their validity is C19's subject)
        if let Some(v) = t.strip_prefix("ALL_DEPENDS=") {
            if v.split_whitespace().any(|i| !GOOD_DEPENDS.contains(&i) && !BAD_DEPENDS.contains(&i)) {
                obs.excluded = true;
                return Ok(());
            }
        }
        if let Some(eq) = t.find('=') {
            if t[..eq].trim() == "PKG_LOCATION" {
                let v = t[eq + 1..].trim();
                if !GOOD_LOCATIONS.contains(&v) && !BAD_LOCATIONS.contains(&v) {
                    obs.excluded = true;
                    return Ok(());
                }
            }
            if t[..eq].trim() == "ALL_DEPENDS" && !t.starts_with("ALL_DEPENDS=") {
                obs.excluded = true;
                return Ok(());
            }
        }
    }
    let mut text = c.lines.join("\n");
    if c.final_newline && !c.lines.is_empty() {
        text.push('\n');
    }
    let want = model(&text);
    let (got, _, reads, interrupted) = run_once(text.as_bytes(), c, c.fail_at.map(|x| x as usize));
    obs.verdicts += 1;
    match (&want, &got, c.fail_at) {
        (_, Ok(v), Some(k)) if (k as usize) < reads => {
            return Err(format!("the reader failed at read #{} but from_reader returned {} records", k, v.len()))
        }
        (Ok(w), Ok(g), _) => compare(g, w).map_err(|e| format!("{}\ninput:\n{}", e, text))?,
        (Err(_), Err(_), _) => {}
        (Ok(_), Err(e), None) => return Err(format!("well-formed input rejected: {}\ninput:\n{}", e, text)),
        (Ok(_), Err(_), Some(_)) => {}
        (Err(why), Ok(g), _) => {
            return Err(format!("input with a fault ({}) was accepted, returning {} records\ninput:\n{}", why, g.len(), text))
        }
    }
    if c.all_reads && want.is_ok() {
        // an I/O error at every read call of the sequence: the read must fail as a whole
        // every read call of short sequences; at most ~300 evenly spaced positions of long ones
        let step = (reads / 300).max(1);
        for k in (0..reads).step_by(step) {
            if (c.chunks.get(k).copied()) == Some(0) {
                continue; // this call is an Interrupted, keep it
            }
            let (res, failed, _, _) = run_once(text.as_bytes(), c, Some(k));
            obs.sub_evaluations += 1;
            obs.verdicts += 1;
            if failed && (k == 0 || k + 1 == reads || k == reads / 2) {
                // a failed read leaves nothing behind: the same input, read without a fault on
                // the same thread, gives the model's records
                if let (Ok(w), (Ok(g), _, _, _)) = (&want, run_once(text.as_bytes(), c, None)) {
                    compare(&g, w).map_err(|e| format!("{} (clean read right after a read that failed with an I/O error at call #{})\ninput:\n{}", e, k, text))?;
                } else {
                    return Err(format!("clean read after a read that failed at call #{} does not succeed\ninput:\n{}", k, text));
                }
            }
            if failed {
                obs.sub_nontrivial_distinct += 1;
                if let Ok(v) = res {
                    return Err(format!(
                        "I/O error injected at read #{} of {} but from_reader returned {} records (partial list)\ninput:\n{}",
                        k, reads, v.len(), text
                    ));
                }
            }
        }
        obs.class("io-error-at-every-read");
    }
    let nrec = want.as_ref().map(|w| w.len()).unwrap_or(0);
    let shared_key = want.as_ref().map(|w| {
        w.windows(2).any(|p| p[0].fields.iter().any(|(k, v)| p[1].fields.get(k).map(|v2| v2 != v).unwrap_or(false))
            || p[0].fields.keys().any(|k| !p[1].fields.contains_key(k)) || p[1].fields.keys().any(|k| !p[0].fields.contains_key(k)))
    }).unwrap_or(false);
    obs.nontrivial = (nrec >= 2 && shared_key) || want.is_err() || c.all_reads || c.fail_at.is_some();
    if nrec >= 2 {
        obs.class("several-records");
    }
    if shared_key {
        obs.class("neighbouring-records-differ-in-a-key");
    }
    if let Err(w) = &want {
        obs.class(if w.contains("without PKGNAME") { "fault:block-without-PKGNAME" } else if w.contains("ALL_DEPENDS") { "fault:bad-dependency" } else { "fault:bad-location" });
    }
    if interrupted > 0 {
        obs.class("interrupted-reads");
    }
    let _ = (idx, LISTS);
    Ok(())
}

pub fn property() -> Property {
    Property {
        id: "C16",
        rule: "Inputs of 0-6 records: a 'PKGNAME=' line (value empty, with '=' inside, padded, without '-'; optional leading blanks) followed by 0-9 lines over the 15 known keys (scalars with values incl. empty, 'a=b', padded, non-ASCII; PKG_LOCATION from valid spellings; ALL_DEPENDS / SCAN_DEPENDS / MULTI_VERSION with 0-5 items separated by blanks or tabs), repeated keys, the same key with different values or missing in neighbouring records, ignored lines (blank, unknown key, no '=', near-miss keys). The reader delivers generated chunk sizes through a 32-byte BufReader, with Interrupted at generated points. Fault stream: a block before the first 'PKGNAME=', one invalid ALL_DEPENDS item (8 kinds, first or last), an invalid PKG_LOCATION, or - enumerated inside the case - a hard I/O error at every read call of the sequence. Oracle: M-scan (segmentation on 'PKGNAME=', first '=', trimmed, last wins, whitespace-split lists): record count and order, pkgname == PkgName::new(v), every public field of every record; any fault -> Err as a whole, never a partial list. Non-trivial = >= 2 records whose neighbours differ in a key's value or presence, or a fault. Distinct = distinct inputs (+ one per injected error position). Generators also draw, at low weight, tokens from the source-literal dictionary (every string / byte / character literal of the library's own source, collected at build time and filtered by this domain's character class) (as scalar values); injected I/O errors cycle through six error kinds.",
        assumptions: vec![
            "dependency items and locations come from fixed valid / invalid pools (their validity is the subject of C19)",
            "lines whose key is 'PKGNAME' but do not start with 'PKGNAME=' after trimming (e.g. 'PKGNAME =x') are outside the domain",
        ],
        streams: vec![
            random_stream("records", "well-formed multi-record inputs x read schedules", clean_strategy, |t| t.pick(50_000, 3_000_000), check),
            random_stream("faults", "content faults and I/O errors at every read", fault_strategy, |t| t.pick(12_000, 600_000), check),
            crate::fuzz::replay_stream(),
        ],
        selfcheck: crate::models::pkgpath::selfcheck,
        hang_is_violation: false,
        min_nontrivial_share: 0.05,
        extra: Some(crate::fuzz::extra),
    }
}
