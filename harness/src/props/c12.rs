//! C12 — checksum and size verification passes only for files that really match.

use crate::engine::gen::idx;
use crate::engine::*;
use crate::models::distinfo::{self as md, Kind};
use crate::models::hash::{self as mh, Alg, ALGS};
use crate::props::c10::{from_digest, to_digest};
use pkgsrc::distinfo::{Checksum, Distinfo, DistinfoError, Entry};
use proptest::prelude::*;
use serde::{Deserialize, Serialize};
use std::ffi::OsString;
use std::os::unix::ffi::{OsStrExt, OsStringExt};
use std::path::{Path, PathBuf};
use std::sync::atomic::{AtomicU64, Ordering};

#[derive(Clone, Debug, Serialize, Deserialize)]
pub enum Basis {
    Same,
    FlipByte(u16),
    Append(u8),
    RemoveLast,
}

#[derive(Clone, Debug, Serialize, Deserialize)]
pub enum HashSpec {
    Correct,
    FlipHexDigit(u16),
    Truncate,
    UpperCase,
    Literal(String),
    /// two neighbouring (different) digits exchanged
    Swap(u16),
    /// the same bit changed in two digits (differences that cancel under XOR / sum)
    DoubleFlip(u16, u16),
    /// the true hash of another algorithm of the same length, or the true hash reversed
    Reversed,
}

#[derive(Clone, Debug, Serialize, Deserialize)]
pub enum SizeSpec {
    Absent,
    Correct,
    Plus1,
    Minus1,
    Literal(u64),
    /// the real length plus this (2^k, 10^k: differences that vanish in a narrower type)
    Plus(u64),
}

#[derive(Clone, Debug, Serialize, Deserialize)]
pub enum NameSpec {
    /// the last k components of the real path
    Tail(u8),
    /// a different directory in front of the real file name
    OtherDir(B),
    /// an unrelated name
    Other(B),
    /// the real file name without its first k bytes (a trailing *text* of the path that is not a
    /// trailing sub-path)
    CutFront(u8),
    /// the last k components of the real path with extra text glued in front
    Glued(u8, B),
}

#[derive(Clone, Debug, Serialize, Deserialize)]
pub struct EntrySpec {
    /// in the text form the Size line comes before the checksum lines
    #[serde(default)]
    pub size_first: bool,
    pub name: NameSpec,
    pub basis: Basis,
    /// (algorithm index, how the recorded hash relates to the true one); distinct algorithms
    pub checksums: Vec<(u8, HashSpec)>,
    pub size: SizeSpec,
}

#[derive(Clone, Debug, Serialize, Deserialize)]
pub struct Case {
    /// text layout: all checksum lines of all entries first, then all size lines
    #[serde(default)]
    pub sizes_grouped_last: bool,
    /// components below the scratch root; the last one is the file
    pub comps: Vec<B>,
    pub content: B,
    pub entries: Vec<EntrySpec>,
    /// build the Distinfo by parsing text (true) or through the API (false)
    pub via_text: bool,
}

const DIRS: [&[u8]; 5] = [b"d1", b"sub", b"\xc3\xbcn\xc3\xaf", b"\xe9dir", b"dist-subdir"];
const FILES: [&[u8]; 15] = [
    b"patch-Makefile.target", b"patch-src_util.tardy.c", b"patch-x.tar",
    b"foo-1.0.tar.gz", b"a", b"caf\xe9.tgz", b"\xc3\xa0.zip", b"patch-aa", b"patch-src_main.c", b"patch-local-x",
    b"patch-a.orig", b"emul-linux-patch-x", b"patch-2.7.6.tar.xz", b"x(1)=#.bin", b"patch-",
];

fn content_strategy(tier: Tier) -> BoxedStrategy<Vec<u8>> {
    let max = tier.pick(6_000usize, 20_480usize);
    let line = prop::sample::select(vec![
        &b"plain line"[..], b"", b"$NetBSD$", b"$NetBSD: patch-aa,v 1.3 2020/01/01 x Exp $", b"+added", b"-removed", b"$NetBS", b"x $NetBSD y",
        b"--- a.orig", b"+++ a", b"@@ -1 +1 @@", b"$NetBSD", b"# ends with $NetBSD", b"$NetBS$NetBSD", b"NetBSD$", b"\xff$NetBSD\xfe",
        // the marker in another letter case is not the marker
        b"$NETBSD$", b"$netbsd: x $", b"+CPPFLAGS+= -I$NETBSDSRCDIR/sys", b"$NetBsD", b"$nETbsd",
        // DOS line ends, lone CR
        b"dos line\r", b"\r", b"$NetBSD$\r", b"a\rb",
    ]);
    prop_oneof![
        1 => Just(vec![]),
        3 => (prop::collection::vec(line, 0..20), any::<bool>()).prop_map(|(ls, nl)| {
            let mut v = ls.join(&b"\n"[..]);
            if nl && !v.is_empty() { v.push(b'\n'); }
            v
        }),
        2 => prop::collection::vec(any::<u8>(), 0..300),
        1 => (1usize..max, any::<u8>()).prop_map(|(n, s)| (0..n).map(|i| (i as u8).wrapping_mul(s | 1).wrapping_add(s)).collect()),
        // one very long line with the marker deep inside
        1 => (1500usize..max.min(6000).max(1501), prop::sample::select(vec![&b"$NetBSD$"[..], b"$NetBSD", b"$NetBS"])).prop_map(|(n, marker)| {
            let mut v: Vec<u8> = (0..n).map(|i| b"abcdefghij"[i % 10]).collect();
            v.extend_from_slice(marker);
            v.extend_from_slice(b" trailing text\nnext\n");
            v
        }),
        // a marker line at an arbitrary offset (any internal buffer size has an edge somewhere)
        3 => (
            // half of the offsets lie just below a multiple of a power of two (buffer sizes)
            prop_oneof![
                1 => 0usize..max.min(9000),
                1 => (1usize..=16, prop::sample::select(vec![256usize, 512, 1024, 2048, 4096, 8192]), 0usize..12).prop_map(move |(k, u, d)| (k * u).saturating_sub(d) % max.min(17000)),
            ],
            prop::sample::select(vec![&b"$NetBSD$"[..], b"x $NetBSD: y $", b"$NetBSD", b"$NetBS"]),
            1usize..80,
        )
            .prop_map(|(at, marker, w)| {
            let mut v = vec![];
            while v.len() + w + 1 < at {
                v.extend(std::iter::repeat(b'f').take(w));
                v.push(b'\n');
            }
            while v.len() < at {
                v.push(b'g');
            }
            if at > 0 {
                let l = v.len();
                v[l - 1] = b'\n';
            }
            v.extend_from_slice(marker);
            v.extend_from_slice(b"\ntail line\n");
            v
        }),
    ]
    .boxed()
}

fn hash_spec() -> BoxedStrategy<HashSpec> {
    prop_oneof![
        6 => Just(HashSpec::Correct),
        3 => any::<u16>().prop_map(HashSpec::FlipHexDigit),
        1 => Just(HashSpec::Truncate),
        1 => Just(HashSpec::UpperCase),
        1 => any::<u16>().prop_map(HashSpec::Swap),
        1 => (any::<u16>(), any::<u16>()).prop_map(|(a, b)| HashSpec::DoubleFlip(a, b)),
        1 => Just(HashSpec::Reversed),
        1 => prop::sample::select(vec!["ojnk", "0", "da39a3ee5e6b4b0d3255bfef95601890afd80709"]).prop_map(|s| HashSpec::Literal(s.to_string())),
    ]
    .boxed()
}

fn entry_spec() -> BoxedStrategy<EntrySpec> {
    let name = prop_oneof![
        6 => (1u8..=3).prop_map(NameSpec::Tail),
        2 => prop::sample::select(vec![&b"x"[..], b"other", b"d2"]).prop_map(|d| NameSpec::OtherDir(B(d.to_vec()))),
        1 => prop::sample::select(vec![&b"unrelated.tgz"[..], b"patch-zz", b"a/b/c"]).prop_map(|d| NameSpec::Other(B(d.to_vec()))),
        1 => (1u8..4).prop_map(NameSpec::CutFront),
        1 => (1u8..=2, prop::sample::select(vec![&b"lib"[..], b"x", b"-", b"."])).prop_map(|(k, g)| NameSpec::Glued(k, B(g.to_vec()))),
    ];
    let basis = prop_oneof![
        6 => Just(Basis::Same),
        2 => any::<u16>().prop_map(Basis::FlipByte),
        1 => any::<u8>().prop_map(Basis::Append),
        1 => Just(Basis::RemoveLast),
    ];
    let size = prop_oneof![
        2 => Just(SizeSpec::Absent),
        5 => Just(SizeSpec::Correct),
        1 => Just(SizeSpec::Plus1),
        1 => Just(SizeSpec::Minus1),
        1 => prop::sample::select(vec![0u64, u64::MAX, 1]).prop_map(SizeSpec::Literal),
        1 => prop::sample::select(vec![1u64 << 8, 1 << 16, 1 << 31, 1 << 32, 1 << 33, 3 << 32, 1 << 63, 1_000_000_000, 10_000_000_000]).prop_map(SizeSpec::Plus),
    ];
    (name, basis, prop::collection::vec((0u8..6, hash_spec()), 0..=4), size, any::<bool>())
        .prop_map(|(name, basis, mut checksums, size, size_first)| {
            // distinct algorithms per entry
            let mut seen = std::collections::BTreeSet::new();
            checksums.retain(|(a, _)| seen.insert(*a));
            EntrySpec { size_first, name, basis, checksums, size }
        })
        .boxed()
}

fn case_strategy(tier: Tier) -> BoxedStrategy<Case> {
    let base = (
        prop::collection::vec(0usize..DIRS.len(), 0..=2),
        0usize..FILES.len(),
        content_strategy(tier),
        prop::collection::vec(entry_spec(), 0..=4),
        any::<bool>(),
    )
        .prop_map(|(dirs, f, content, entries, via_text)| {
            let mut comps: Vec<B> = dirs.into_iter().map(|d| B(DIRS[d].to_vec())).collect();
            comps.push(B(FILES[f].to_vec()));
            Case { sizes_grouped_last: false, comps, content: B(content), entries, via_text }
        })
        .boxed();
    // one case in four uses a generated file name (arbitrary non-white-space bytes, patch shapes)
    let generated = crate::props::distgen::name().prop_map(|n| {
        // the last component, without NUL (the file system cannot store it)
        let b: Vec<u8> = n.rsplit(|c| *c == b'/').next().unwrap_or(&n).iter().map(|c| if *c == 0 { b'x' } else { *c }).take(120).collect();
        b
    });
    (base, prop::option::weighted(0.25, generated))
        .prop_map(|(mut c, g)| {
            if let Some(n) = g {
                let last = c.comps.len() - 1;
                c.comps[last] = B(n);
            }
            c.sizes_grouped_last = c.content.0.len() % 4 == 1;
            c
        })
        .boxed()
}

fn apply_basis(content: &[u8], b: &Basis) -> Vec<u8> {
    let mut v = content.to_vec();
    match b {
        Basis::Same => {}
        Basis::FlipByte(p) => {
            if !v.is_empty() {
                let k = idx(*p, v.len());
                v[k] ^= 0x01;
            }
        }
        Basis::Append(x) => v.push(*x),
        Basis::RemoveLast => {
            v.pop();
        }
    }
    v
}

fn true_hash(alg: Alg, content: &[u8], kind: Kind) -> String {
    match kind {
        Kind::Distfile => mh::digest(alg, content),
        Kind::Patchfile => mh::digest(alg, &mh::patch_filter(content)),
    }
}

fn recorded_hash(alg: Alg, basis_content: &[u8], kind: Kind, spec: &HashSpec) -> String {
    let h = true_hash(alg, basis_content, kind);
    match spec {
        HashSpec::Correct => h,
        HashSpec::FlipHexDigit(p) => {
            let mut cs: Vec<char> = h.chars().collect();
            let k = idx(*p, cs.len());
            cs[k] = if cs[k] == '0' { '1' } else { '0' };
            cs.into_iter().collect()
        }
        HashSpec::Truncate => h[..h.len() - 1].to_string(),
        HashSpec::UpperCase => h.to_ascii_uppercase(),
        HashSpec::Literal(s) => s.clone(),
        HashSpec::Swap(p) => {
            let mut cs: Vec<char> = h.chars().collect();
            let n = cs.len();
            let start = idx(*p, n.saturating_sub(1).max(1));
            if let Some(k) = (0..n.saturating_sub(1)).map(|d| (start + d) % (n - 1)).find(|k| cs[*k] != cs[*k + 1]) {
                cs.swap(k, k + 1);
            }
            cs.into_iter().collect()
        }
        HashSpec::DoubleFlip(p, q) => {
            let mut cs: Vec<char> = h.chars().collect();
            let n = cs.len();
            let (i, mut j) = (idx(*p, n), idx(*q, n));
            if i == j {
                j = (j + 1) % n;
            }
            let flip = |c: char| -> char { char::from_digit(c.to_digit(16).unwrap_or(0) ^ 1, 16).unwrap_or('0') };
            cs[i] = flip(cs[i]);
            cs[j] = flip(cs[j]);
            cs.into_iter().collect()
        }
        HashSpec::Reversed => h.chars().rev().collect(),
    }
}

struct Scratch(PathBuf);
impl Drop for Scratch {
    fn drop(&mut self) {
        let _ = std::fs::remove_dir_all(&self.0);
    }
}
static COUNTER: AtomicU64 = AtomicU64::new(0);

pub fn scratch(tag: &str) -> std::io::Result<PathBuf> {
    let n = COUNTER.fetch_add(1, Ordering::Relaxed);
    let p = std::env::temp_dir().join(format!("pv-{}-{}-{}", tag, std::process::id(), n));
    std::fs::create_dir_all(&p)?;
    Ok(p)
}

#[derive(Clone, Debug)]
struct Rec {
    size_first: bool,
    name: Vec<u8>,
    checksums: Vec<(Alg, String)>,
    size: Option<u64>,
}

fn err_name(p: &Path) -> B {
    B(p.as_os_str().as_bytes().to_vec())
}

pub fn check(c: &Case, obs: &mut Obs) -> Result<(), String> {
    // ---- domain
    if c.comps.is_empty() || c.comps.len() > 3 {
        obs.excluded = true;
        return Ok(());
    }
    for comp in &c.comps {
        if comp.0.is_empty() || comp.0 == b"." || comp.0 == b".." || comp.0.iter().any(|b| *b == b'/' || *b == 0 || md::is_ws(*b)) {
            obs.excluded = true;
            return Ok(());
        }
    }
    let fname = c.comps.last().unwrap().0.clone();
    let kind = md::classify(&fname);
    let rel: Vec<u8> = c.comps.iter().map(|b| b.0.clone()).collect::<Vec<_>>().join(&b"/"[..]);
    // ---- recorded entries (first one wins when two specs give the same name)
    let mut recs: Vec<Rec> = vec![];
    for e in &c.entries {
        let name: Vec<u8> = match &e.name {
            NameSpec::Tail(k) => {
                let k = (*k as usize).clamp(1, c.comps.len());
                if kind == Kind::Patchfile && k > 1 {
                    continue; // patches are recorded by their file name only
                }
                c.comps[c.comps.len() - k..].iter().map(|b| b.0.clone()).collect::<Vec<_>>().join(&b"/"[..])
            }
            NameSpec::OtherDir(d) => {
                if kind == Kind::Patchfile {
                    continue;
                }
                [d.0.clone(), b"/".to_vec(), fname.clone()].concat()
            }
            NameSpec::Other(n) => n.0.clone(),
            NameSpec::CutFront(k) => fname[(*k as usize).min(fname.len().saturating_sub(1))..].to_vec(),
            NameSpec::Glued(k, g) => {
                let k = (*k as usize).clamp(1, c.comps.len());
                if kind == Kind::Patchfile && k > 1 {
                    continue;
                }
                [g.0.clone(), c.comps[c.comps.len() - k..].iter().map(|b| b.0.clone()).collect::<Vec<_>>().join(&b"/"[..])].concat()
            }
        };
        if name.is_empty() || name.iter().any(|b| md::is_ws(*b)) || !md::unambiguous(&name) || recs.iter().any(|r| r.name == name) {
            continue;
        }
        let ekind = md::classify(&name);
        let basis = apply_basis(&c.content.0, &e.basis);
        let checksums: Vec<(Alg, String)> = e
            .checksums
            .iter()
            .map(|(a, s)| {
                let alg = ALGS[*a as usize % 6];
                (alg, recorded_hash(alg, &basis, ekind, s))
            })
            .filter(|(_, h)| !h.is_empty())
            .collect();
        let size = match (&e.size, ekind) {
            // patches carry a size only in hand-written text (as_bytes never writes one)
            (_, Kind::Patchfile) if !c.via_text => None,
            (SizeSpec::Absent, _) => None,
            (SizeSpec::Correct, _) => Some(basis.len() as u64),
            (SizeSpec::Plus1, _) => Some(basis.len() as u64 + 1),
            (SizeSpec::Minus1, _) => Some((basis.len() as u64).saturating_sub(1)),
            (SizeSpec::Literal(n), _) => Some(*n),
            (SizeSpec::Plus(d), _) => Some((basis.len() as u64).wrapping_add(*d)),
        };
        if checksums.is_empty() && size.is_none() {
            continue;
        }
        recs.push(Rec { size_first: e.size_first, name, checksums, size });
    }
    // ---- build the Distinfo
    let di = if c.via_text {
        let mut text = b"$NetBSD$\n\n".to_vec();
        for r in &recs {
            let size_line = |text: &mut Vec<u8>| {
                if let Some(s) = r.size {
                    text.extend_from_slice(b"Size (");
                    text.extend_from_slice(&r.name);
                    text.extend_from_slice(format!(") = {} bytes\n", s).as_bytes());
                }
            };
            if r.size_first && !c.sizes_grouped_last {
                size_line(&mut text);
            }
            for (a, h) in &r.checksums {
                text.extend_from_slice(format!("{} (", a.name()).as_bytes());
                text.extend_from_slice(&r.name);
                text.extend_from_slice(format!(") = {}\n", h).as_bytes());
            }
            if !r.size_first && !c.sizes_grouped_last {
                size_line(&mut text);
            }
        }
        if c.sizes_grouped_last {
            for r in &recs {
                if let Some(s) = r.size {
                    text.extend_from_slice(b"Size (");
                    text.extend_from_slice(&r.name);
                    text.extend_from_slice(format!(") = {} bytes\n", s).as_bytes());
                }
            }
        }
        Distinfo::from_bytes(&text)
    } else {
        let mut d = Distinfo::new();
        for r in &recs {
            d.insert(Entry::new(
                PathBuf::from(OsString::from_vec(r.name.clone())),
                PathBuf::from("unused"),
                r.checksums.iter().map(|(a, h)| Checksum::new(to_digest(*a), h.clone())).collect(),
                r.size,
            ));
        }
        d
    };
    // ---- the file on disk
    let root = Scratch(scratch("c12").map_err(|e| format!("scratch dir: {}", e))?);
    let mut path = root.0.clone();
    for comp in &c.comps {
        path.push(OsString::from_vec(comp.0.clone()));
    }
    std::fs::create_dir_all(path.parent().unwrap()).map_err(|e| format!("mkdir: {}", e))?;
    std::fs::write(&path, &c.content.0).map_err(|e| format!("write: {}", e))?;

    // ---- model: the entry of the shortest recorded trailing sub-path, in the map of the file's kind
    let full: Vec<Vec<u8>> = path.iter().map(|c| c.as_bytes().to_vec()).collect();
    let mut found: Option<&Rec> = None;
    for k in 1..=full.len() {
        let tail = if k == full.len() {
            // includes the root component "/": joined without doubling the slash
            let mut v = b"/".to_vec();
            v.extend(full[1..].join(&b"/"[..]));
            v
        } else {
            full[full.len() - k..].join(&b"/"[..])
        };
        if let Some(r) = recs.iter().find(|r| r.name == tail && md::classify(&r.name) == kind) {
            found = Some(r);
            break;
        }
    }
    let actual_len = c.content.0.len() as u64;

    // find_entry
    obs.verdicts += 1;
    match (di.find_entry(&path), found) {
        (Ok(e), Some(r)) => {
            if e.filename.as_os_str().as_bytes() != r.name.as_slice() {
                return Err(format!(
                    "find_entry({:?}) returned entry {:?}, the shortest recorded trailing sub-path is {:?}",
                    B(rel.clone()), err_name(&e.filename), B(r.name.clone())
                ));
            }
        }
        (Err(DistinfoError::NotFound), None) => {}
        (g, w) => {
            return Err(format!(
                "find_entry({:?}) = {:?}, expected {:?} (recorded: {:?})",
                B(rel.clone()),
                g.map(|e| err_name(&e.filename)).map_err(|e| e.to_string()),
                w.map(|r| B(r.name.clone())),
                recs.iter().map(|r| B(r.name.clone())).collect::<Vec<_>>()
            ))
        }
    }
    // verify_size
    obs.verdicts += 1;
    let got = di.verify_size(&path);
    match (found, &got) {
        (None, Err(DistinfoError::NotFound)) => {}
        (Some(r), _) => match (r.size, &got) {
            (None, Err(DistinfoError::MissingSize(_))) => {}
            (Some(s), Ok(n)) if s == actual_len && *n == s => {}
            (Some(s), Err(DistinfoError::Size(n, exp, act))) if s != actual_len => {
                if *exp != s || *act != actual_len || n.as_os_str().as_bytes() != r.name.as_slice() {
                    return Err(format!("verify_size error carries ({:?}, {}, {}), expected ({:?}, {}, {})", err_name(n), exp, act, B(r.name.clone()), s, actual_len));
                }
            }
            _ => {
                return Err(format!(
                    "verify_size({:?}) = {:?}; file has {} bytes, recorded size {:?}",
                    B(rel.clone()), got.as_ref().map_err(|e| e.to_string()), actual_len, r.size
                ))
            }
        },
        _ => return Err(format!("verify_size({:?}) = {:?} although no trailing sub-path is recorded", B(rel.clone()), got.as_ref().map_err(|e| e.to_string()))),
    }
    // verify_checksum for every algorithm
    let mut mismatch_seen = false;
    let mut pass_seen = false;
    for alg in ALGS {
        obs.verdicts += 1;
        let got = di.verify_checksum(&path, to_digest(alg));
        let actual = true_hash(alg, &c.content.0, kind);
        match found {
            None => {
                if !matches!(got, Err(DistinfoError::NotFound)) {
                    return Err(format!("verify_checksum({:?}, {}) = {:?}, expected NotFound", B(rel.clone()), alg.name(), got.map_err(|e| e.to_string())));
                }
            }
            Some(r) => match r.checksums.iter().find(|(a, _)| *a == alg) {
                None => {
                    if !matches!(&got, Err(DistinfoError::MissingChecksum(_, d)) if from_digest(d) == alg) {
                        return Err(format!("verify_checksum({:?}, {}) = {:?}, expected MissingChecksum", B(rel.clone()), alg.name(), got.map_err(|e| e.to_string())));
                    }
                }
                Some((_, rec)) => {
                    if *rec == actual {
                        pass_seen = true;
                        if !matches!(&got, Ok(d) if from_digest(d) == alg) {
                            return Err(format!(
                                "verify_checksum({:?}, {}) = {:?} although the recorded hash equals the digest of the file",
                                B(rel.clone()), alg.name(), got.map_err(|e| e.to_string())
                            ));
                        }
                    } else {
                        mismatch_seen = true;
                        match &got {
                            Err(DistinfoError::Checksum(n, d, exp, act)) => {
                                if from_digest(d) != alg || exp != rec || *act != actual || n.as_os_str().as_bytes() != r.name.as_slice() {
                                    return Err(format!(
                                        "checksum error carries ({:?}, {}, {}, {}), expected ({:?}, {}, {}, {})",
                                        err_name(n), d, exp, act, B(r.name.clone()), alg.name(), rec, actual
                                    ));
                                }
                            }
                            other => {
                                return Err(format!(
                                    "verify_checksum({:?}, {}) = {:?} although recorded {} differs from the file's digest {} ({})",
                                    B(rel.clone()), alg.name(), other.as_ref().map_err(|e| e.to_string()), rec, actual,
                                    if kind == Kind::Patchfile { "patch: $NetBSD lines removed" } else { "distfile" }
                                ))
                            }
                        }
                    }
                }
            },
        }
        // calculate_checksum
        let calc = Distinfo::calculate_checksum(&path, to_digest(alg)).map_err(|e| format!("calculate_checksum: {}", e))?;
        if calc != actual {
            return Err(format!("calculate_checksum({:?}, {}) = {}, expected {}", B(rel.clone()), alg.name(), calc, actual));
        }
    }
    // verify_checksums = the per-checksum results in recorded order
    obs.verdicts += 1;
    let all = di.verify_checksums(&path);
    match found {
        None => {
            if all.len() != 1 || !matches!(all[0], Err(DistinfoError::NotFound)) {
                return Err(format!("verify_checksums({:?}) without a recorded entry = {} results", B(rel.clone()), all.len()));
            }
        }
        Some(r) => {
            if all.len() != r.checksums.len() {
                return Err(format!("verify_checksums({:?}) returned {} results for {} recorded checksums", B(rel.clone()), all.len(), r.checksums.len()));
            }
            for (res, (alg, rec)) in all.iter().zip(r.checksums.iter()) {
                let ok = *rec == true_hash(*alg, &c.content.0, kind);
                let good = match res {
                    Ok(d) => ok && from_digest(d) == *alg,
                    Err(DistinfoError::Checksum(_, d, _, _)) => !ok && from_digest(d) == *alg,
                    _ => false,
                };
                if !good {
                    return Err(format!("verify_checksums({:?}): result for {} is {:?}, recorded hash is {}", B(rel.clone()), alg.name(), res.as_ref().map_err(|e| e.to_string()), if ok { "correct" } else { "wrong" }));
                }
            }
        }
    }
    let sz = Distinfo::calculate_size(&path).map_err(|e| format!("calculate_size: {}", e))?;
    if sz != actual_len {
        return Err(format!("calculate_size = {}, file has {} bytes", sz, actual_len));
    }
    // the Entry-level entry points agree with the container-level ones on the same path
    if let (Some(_), Ok(e)) = (found, di.find_entry(&path)) {
        let show = |r: &Result<pkgsrc::digest::Digest, DistinfoError>| match r {
            Ok(d) => format!("Ok({})", d),
            Err(x) => format!("Err({})", x),
        };
        for alg in ALGS {
            let a = e.verify_checksum(&path, to_digest(alg));
            let b = di.verify_checksum(&path, to_digest(alg));
            obs.verdicts += 1;
            if show(&a) != show(&b) {
                return Err(format!("Entry::verify_checksum({}) = {} but Distinfo::verify_checksum = {} for the same path", alg.name(), show(&a), show(&b)));
            }
        }
        let (a, b) = (e.verify_checksums(&path), di.verify_checksums(&path));
        if a.iter().map(show).collect::<Vec<_>>() != b.iter().map(show).collect::<Vec<_>>() {
            return Err("Entry::verify_checksums and Distinfo::verify_checksums disagree on the same path".into());
        }
        let sz = |r: &Result<u64, DistinfoError>| match r {
            Ok(n) => format!("Ok({})", n),
            Err(x) => format!("Err({})", x),
        };
        if sz(&e.verify_size(&path)) != sz(&di.verify_size(&path)) {
            return Err("Entry::verify_size and Distinfo::verify_size disagree on the same path".into());
        }
    }
    // also look the file up by relative spellings (trailing sub-paths as the caller's path)
    if let Some(r) = found {
        let p = PathBuf::from(OsString::from_vec(r.name.clone()));
        match di.find_entry(&p) {
            Ok(e) if e.filename.as_os_str().as_bytes() == r.name.as_slice() => {}
            other => return Err(format!("find_entry by its own name {:?} = {:?}", B(r.name.clone()), other.map(|e| err_name(&e.filename)).map_err(|e| e.to_string()))),
        }
    }

    let decoy = recs.iter().any(|r| found.map(|f| f.name != r.name).unwrap_or(true));
    let corrupted = mismatch_seen || found.and_then(|r| r.size).map(|s| s != actual_len).unwrap_or(false);
    obs.nontrivial = corrupted || decoy || c.comps.len() > 1;
    if corrupted {
        obs.class("corruption-detected");
    }
    if pass_seen {
        obs.class("checksum-passes");
    }
    if decoy {
        obs.class("decoy-entries");
    }
    if found.is_none() {
        obs.class("not-found");
    }
    if kind == Kind::Patchfile {
        obs.class("patch-file");
        if mh::patch_filter(&c.content.0) != c.content.0 {
            obs.class("patch-with-NetBSD-lines");
        }
    }
    if found.map(|r| r.name.contains(&b'/')).unwrap_or(false) {
        obs.class("found-by-subdir-name");
    }
    Ok(())
}

pub fn property() -> Property {
    Property {
        id: "C12",
        rule: "A scratch directory (created and removed by the case) holds one file at <root>/[d1/[d2/]]name with content from {empty, text with/without final LF and with '$NetBSD' lines, random binary, patterned data up to 20 KiB}; names are distfile and patch names incl. non-UTF-8 and the patch exceptions. A Distinfo (built from text or through the API) records 0-4 entries: the file under one of its trailing sub-paths (name, d2/name, d1/d2/name), decoys sharing a tail (x/name) and unrelated names; each with 0-4 checksums of distinct algorithms whose recorded value is the M-hash digest (patch_filter applied for patches) of the content or of a corrupted basis (one bit flipped, byte appended, last byte removed), left correct or itself corrupted (one hex digit changed, truncated, upper-cased, literal), and a size that is absent / correct / +-1 / literal. Oracle: find_entry = entry of the shortest recorded trailing sub-path (else NotFound); verify_size Ok(size) iff length equal, else Size(name, expected, actual) / MissingSize; verify_checksum(alg) for all six algorithms Ok iff recorded == M-hash(content or filtered content), else Checksum(name, alg, expected, actual) with exact values / MissingChecksum / NotFound; verify_checksums = per-checksum results in recorded order; calculate_checksum / calculate_size = M-hash / length. Non-trivial = a corruption is detected, a decoy entry exists, or the file lies in a sub-directory. Distinct = distinct cases. Generators also draw, at low weight, tokens from the source-literal dictionary (every string / byte / character literal of the library's own source, collected at build time and filtered by this domain's character class); recorded names also: the file name minus its first 1-3 bytes, and the trailing components with 'lib' / 'x' / '-' / '.' glued in front (textual suffix / prefix relatives that are no trailing sub-path).",
        assumptions: vec![
            "at most one recorded hash per algorithm and entry",
            "patch files are recorded under their file name only; recorded names classify unambiguously",
            "the file system accepts non-UTF-8 file names (Linux)",
        ],
        streams: vec![random_stream("files", "file on disk x recorded entries x all six algorithms", case_strategy, |t| t.pick(8_000, 150_000), check)],
        selfcheck: || {
            md::selfcheck()?;
            mh::selfcheck()
        },
        hang_is_violation: false,
        min_nontrivial_share: 0.2,
        extra: None,
    }
}
