//! C08 — pkg_summary parsing accepts exactly complete well-formed entries, else says why.

use crate::engine::gen::idx;
use crate::engine::*;
use crate::models::summary::{self as m, Kind, ParseErr, Val, VARS};
use crate::props::{sumapi, sumgen};
use pkgsrc::summary::{MissingVariable, Summary, SummaryError};
use proptest::prelude::*;
use serde::{Deserialize, Serialize};
use std::str::FromStr;

#[derive(Clone, Debug, Serialize, Deserialize)]
pub struct Case {
    pub lines: Vec<String>,
    /// number of faults injected by the generator (classification only)
    pub faults: u8,
    pub final_newline: bool,
}

const BAD_INTS: [&str; 24] = [
    "", "NaN", "12a", " 5", "5 ", "9223372036854775808", "1.0", "0x10", "--1", "12=34", "4321=", "=5", "1 2", "1\t", "１２", "٣", "1_000", "1e3",
    "+", "-", "−1", "-9223372036854775809", "5\u{0}", "1,000",
];
const BAD_NAMES: [&str; 14] = [
    "pkgname", "PKGNAME ", " PKGNAME", "PKG_NAME", "PKGNAM", "PKGNAMES", "BUILDDATE", "SIZE_PK", "FILE_SIZES", "DESCR",
    "", "Comment", "REQUIRE", "PKG_PATH",
];

fn value_text(i: usize) -> BoxedStrategy<String> {
    match VARS[i].1 {
        Kind::Int => prop_oneof![
            4 => sumgen::int().prop_map(|n| n.to_string()),
            1 => prop::sample::select(vec!["+5", "-0", "007", "+0"]).prop_map(String::from),
        ]
        .boxed(),
        _ => sumgen::text(),
    }
}

fn line() -> BoxedStrategy<String> {
    (0usize..VARS.len())
        .prop_flat_map(|i| value_text(i).prop_map(move |v| format!("{}={}", VARS[i].0, v)))
        .boxed()
}

fn complete_lines() -> BoxedStrategy<Vec<String>> {
    // all required variables, shuffled, plus extras (repetitions / optional variables)
    let req: Vec<BoxedStrategy<String>> = m::required()
        .into_iter()
        .map(|i| value_text(i).prop_map(move |v| format!("{}={}", VARS[i].0, v)).boxed())
        .collect();
    (req, prop::collection::vec(line(), 0..8), prop::collection::vec(any::<u16>(), 24))
        .prop_map(|(mut v, extra, sels)| {
            v.extend(extra);
            for i in (1..v.len()).rev() {
                let j = idx(sels[i % sels.len()].wrapping_add(i as u16 * 7), i + 1);
                v.swap(i, j);
            }
            v
        })
        .boxed()
}

#[derive(Clone, Debug)]
enum Fault {
    NoEquals(String),
    BadName(usize, String),
    /// a name at edit distance one from a supported name (kind, variable, position, letter)
    Misspelt(u8, usize, u16, u8, String),
    /// a token of the library's own source as the name
    DictName(String, String),
    BadInt(usize, bool),
    /// an integer variable with a value over a small alphabet of digits, signs and look-alikes
    /// (valid or not: the model decides)
    OddInt(String, bool),
    Remove(usize),
}

fn fault() -> BoxedStrategy<Fault> {
    prop_oneof![
        2 => prop::sample::select(vec!["", "garbage", "PKGNAME", "no equals here", " ", "é"]).prop_map(|s| Fault::NoEquals(s.to_string())),
        2 => (0usize..BAD_NAMES.len(), sumgen::text()).prop_map(|(i, v)| Fault::BadName(i, v)),
        2 => (0usize..BAD_INTS.len(), any::<bool>()).prop_map(|(i, b)| Fault::BadInt(i, b)),
        3 => (0usize..11).prop_map(Fault::Remove),
        2 => (crate::engine::gen::small_alphabet(&['+', '-', '1', '0', '9', ' ', '.', 'e', 'x', '_', '=', '\t'], 4, 6), any::<bool>()).prop_map(|(v, w)| Fault::OddInt(v, w)),
        2 => (0u8..5, 0usize..VARS.len(), any::<u16>(), 0u8..33, sumgen::text()).prop_map(|(k, i, p, l, v)| Fault::Misspelt(k, i, p, l, v)),
        1 => (crate::engine::dict::string_token(name_char, "X"), sumgen::text()).prop_map(|(n, v)| Fault::DictName(n, v)),
    ]
    .boxed()
}

fn name_char(c: char) -> bool {
    c != '=' && c != '\r' && c != '\n'
}

/// one edit of a supported name: 0 substitute, 1 delete, 2 insert, 3 transpose, 4 change case
pub fn misspell(name: &str, kind: u8, pos: u16, letter: u8) -> String {
    let mut cs: Vec<char> = name.chars().collect();
    let l = match letter {
        0..=25 => (b'A' + letter) as char,
        26 => '_',
        27 => '\0',
        28 => ' ',
        29 => '-',
        30 => '1',
        31 => 's',
        _ => '\u{e9}',
    };
    match kind % 5 {
        0 => {
            let k = idx(pos, cs.len());
            cs[k] = l;
        }
        1 => {
            cs.remove(idx(pos, cs.len()));
        }
        2 => cs.insert(idx(pos, cs.len() + 1), l),
        3 if cs.len() >= 2 => {
            let k = idx(pos, cs.len() - 1);
            cs.swap(k, k + 1);
        }
        _ => {
            let k = idx(pos, cs.len());
            cs[k] = cs[k].to_ascii_lowercase();
        }
    }
    cs.into_iter().collect()
}

fn apply_fault(lines: &mut Vec<String>, f: &Fault, pos: u16) {
    match f {
        Fault::NoEquals(s) => lines.insert(idx(pos, lines.len() + 1), s.clone()),
        Fault::BadName(i, v) => lines.insert(idx(pos, lines.len() + 1), format!("{}={}", BAD_NAMES[*i], v)),
        Fault::Misspelt(k, i, p, l, v) => lines.insert(idx(pos, lines.len() + 1), format!("{}={}", misspell(VARS[*i].0, *k, *p, *l), v)),
        Fault::DictName(n, v) => lines.insert(idx(pos, lines.len() + 1), format!("{}={}", n, v)),
        Fault::BadInt(i, which) => lines.insert(
            idx(pos, lines.len() + 1),
            format!("{}={}", if *which { "FILE_SIZE" } else { "SIZE_PKG" }, BAD_INTS[*i]),
        ),
        Fault::OddInt(v, which) => lines.insert(idx(pos, lines.len() + 1), format!("{}={}", if *which { "FILE_SIZE" } else { "SIZE_PKG" }, v)),
        Fault::Remove(k) => {
            let name = VARS[m::required()[*k]].0;
            let prefix = format!("{}=", name);
            lines.retain(|l| !l.starts_with(&prefix));
        }
    }
}

pub fn case_strategy(_t: Tier) -> BoxedStrategy<Case> {
    prop_oneof![
        // well-formed
        3 => (complete_lines(), any::<bool>()).prop_map(|(lines, nl)| Case { lines, faults: 0, final_newline: nl }),
        // exactly one fault
        5 => (complete_lines(), fault(), any::<u16>(), any::<bool>()).prop_map(|(mut lines, f, pos, nl)| {
            apply_fault(&mut lines, &f, pos);
            Case { lines, faults: 1, final_newline: nl }
        }),
        // two or three faults
        2 => (complete_lines(), prop::collection::vec((fault(), any::<u16>()), 2..=3), any::<bool>()).prop_map(|(mut lines, fs, nl)| {
            for (f, pos) in &fs {
                apply_fault(&mut lines, f, *pos);
            }
            Case { lines, faults: fs.len() as u8, final_newline: nl }
        }),
        // any subset / order / repetition
        2 => (prop::collection::vec(line(), 0..16), any::<bool>()).prop_map(|(lines, nl)| Case { lines, faults: 0, final_newline: nl }),
    ]
    .boxed()
}

/// every required variable removed in turn (enumerated, not sampled) from a fixed complete entry,
/// at every position of a second copy of another variable
fn enumerate_missing(_t: Tier) -> Box<dyn Iterator<Item = Case>> {
    let base: Vec<String> = (0..VARS.len())
        .map(|i| match VARS[i].1 {
            Kind::Int => format!("{}=1", VARS[i].0),
            _ => format!("{}=v{}", VARS[i].0, i),
        })
        .collect();
    let mut out = vec![];
    for k in m::required() {
        for with_optional in [true, false] {
            for reversed in [false, true] {
                let mut lines: Vec<String> = base
                    .iter()
                    .enumerate()
                    .filter(|(i, _)| *i != k && (with_optional || VARS[*i].2))
                    .map(|(_, l)| l.clone())
                    .collect();
                if reversed {
                    lines.reverse();
                }
                out.push(Case { lines, faults: 1, final_newline: true });
            }
        }
    }
    // pairs of missing variables: the first in pkg_summary order is reported
    let req = m::required();
    for a in 0..req.len() {
        for b in a + 1..req.len() {
            let lines: Vec<String> =
                base.iter().enumerate().filter(|(i, _)| *i != req[a] && *i != req[b]).map(|(_, l)| l.clone()).collect();
            out.push(Case { lines, faults: 2, final_newline: true });
        }
    }
    Box::new(out.into_iter())
}

/// every name at edit distance one from a supported name (substitution, deletion, insertion with
/// A-Z and '_', transposition, one letter in lower case), each as one extra line of a complete entry
fn enumerate_misspelt(_t: Tier) -> Box<dyn Iterator<Item = Case>> {
    let base: Vec<String> = (0..VARS.len())
        .map(|i| match VARS[i].1 {
            Kind::Int => format!("{}=1", VARS[i].0),
            _ => format!("{}=v{}", VARS[i].0, i),
        })
        .collect();
    let mut names = std::collections::BTreeSet::new();
    for (name, _, _) in VARS.iter() {
        let n = name.chars().count() as u16;
        for kind in 0u8..5 {
            let positions = if kind == 2 { n + 1 } else { n };
            for p in 0..positions {
                // position p of `positions` through the monotone index map
                let pos = ((p as u32 * 65536 + positions as u32 - 1) / positions as u32).min(65535) as u16;
                let letters: Vec<u8> = if kind == 0 || kind == 2 { (0..33).collect() } else { vec![0] };
                for l in letters {
                    names.insert(misspell(name, kind, pos, l));
                }
            }
        }
    }
    let base2 = base.clone();
    Box::new(names.into_iter().enumerate().map(move |(k, n)| {
        let mut lines = base2.clone();
        let value = if k % 2 == 0 { "1".to_string() } else { format!("v{}", k) };
        lines.insert(k % (lines.len() + 1), format!("{}={}", n, value));
        Case { lines, faults: 1, final_newline: true }
    }))
}

fn missing_index(mv: &MissingVariable) -> usize {
    let name = match mv {
        MissingVariable::BuildDate => "BUILD_DATE",
        MissingVariable::Categories => "CATEGORIES",
        MissingVariable::Comment => "COMMENT",
        MissingVariable::Description => "DESCRIPTION",
        MissingVariable::MachineArch => "MACHINE_ARCH",
        MissingVariable::Opsys => "OPSYS",
        MissingVariable::OsVersion => "OS_VERSION",
        MissingVariable::Pkgname => "PKGNAME",
        MissingVariable::Pkgpath => "PKGPATH",
        MissingVariable::PkgtoolsVersion => "PKGTOOLS_VERSION",
        MissingVariable::SizePkg => "SIZE_PKG",
    };
    m::var_index(name).unwrap()
}

pub fn observe_err(e: &SummaryError) -> Option<ParseErr> {
    match e {
        SummaryError::Incomplete(mv) => Some(ParseErr::Missing(missing_index(mv))),
        SummaryError::ParseLine(l) => Some(ParseErr::Line(l.clone())),
        SummaryError::ParseVariable(v) => Some(ParseErr::Var(v.clone())),
        SummaryError::ParseInt(_) => Some(ParseErr::Int),
        SummaryError::Io(_) => None,
    }
}

pub fn check(c: &Case, obs: &mut Obs) -> Result<(), String> {
    if c.lines.iter().any(|l| l.contains(['\r', '\n'])) {
        obs.excluded = true;
        return Ok(());
    }
    let mut text = c.lines.join("\n");
    if c.final_newline && !c.lines.is_empty() {
        text.push('\n');
    }
    let want = m::parse(&text);
    let got = Summary::from_str(&text);
    obs.verdicts += 1;
    match (&got, &want) {
        (Ok(s), Ok(a)) => {
            sumapi::compare(s, a, "accepted entry")?;
            if !s.is_completed() {
                return Err("accepted entry but is_completed() is false".into());
            }
            obs.class("accepted");
        }
        (Err(e), Err(w)) => {
            let g = observe_err(e);
            let causes = m::causes(&text);
            let ok = match &g {
                Some(g) => causes.contains(g),
                None => false,
            };
            if !ok {
                return Err(format!(
                    "entry\n{}\nis rejected with {:?}, which is none of its causes {:?}",
                    text, e, causes
                ));
            }
            if causes.len() == 1 {
                obs.class("single-cause(exact)");
            } else {
                obs.class("several-causes(any-accepted)");
            }
            obs.class(match w {
                ParseErr::Line(_) => "rejected:malformed-line",
                ParseErr::Var(_) => "rejected:unknown-variable",
                ParseErr::Int => "rejected:bad-integer",
                ParseErr::Missing(_) => "rejected:missing-required",
            });
        }
        (Ok(_), Err(w)) => return Err(format!("entry\n{}\nwas accepted, expected rejection: {:?}", text, w)),
        (Err(e), Ok(_)) => return Err(format!("well-formed complete entry\n{}\nwas rejected: {:?}", text, e)),
    }
    // repeated variable?
    let mut names: Vec<&str> = c.lines.iter().filter_map(|l| l.split('=').next()).collect();
    let n = names.len();
    names.sort();
    names.dedup();
    let repeated = names.len() < n;
    if repeated {
        obs.class("repeated-variable");
    }
    obs.nontrivial = repeated || want.is_err();
    match c.faults {
        0 => {}
        1 => obs.class("one-injected-fault"),
        _ => obs.class("several-injected-faults"),
    }
    Ok(())
}

// ---------------------------------------------------------------- is_completed through the API

#[derive(Clone, Debug, Serialize, Deserialize)]
pub struct SetCase {
    pub vars: Vec<usize>,
    /// the calls are made in this rotation of `vars`
    #[serde(default)]
    pub rot: usize,
}

fn subsets(_t: Tier) -> Box<dyn Iterator<Item = SetCase>> {
    let req = m::required();
    let mut out = vec![];
    // every subset of the eleven required variables (2^11), with and without all optional ones
    for mask in 0u32..(1 << req.len()) {
        let mut vars: Vec<usize> = (0..req.len()).filter(|k| mask >> k & 1 == 1).map(|k| req[k]).collect();
        out.push(SetCase { vars: vars.clone(), rot: (mask as usize) % vars.len().max(1) });
        if mask.count_ones() >= 10 {
            // (nearly) complete sets: every rotation, so that each variable is the completing call
            for rot in 0..vars.len() {
                out.push(SetCase { vars: vars.clone(), rot });
            }
            vars.extend((0..VARS.len()).filter(|i| !VARS[*i].2));
            out.push(SetCase { vars, rot: 0 });
        }
    }
    Box::new(out.into_iter())
}

pub fn check_completed(c: &SetCase, obs: &mut Obs) -> Result<(), String> {
    let mut s = Summary::new();
    // the order of the calls rotates with the case, so that every variable (also a pushed list)
    // is the completing call somewhere
    let rot = c.rot % c.vars.len().max(1);
    let order: Vec<usize> = c.vars[rot..].iter().chain(c.vars[..rot].iter()).copied().collect();
    for i in &order {
        let v = match VARS.get(*i).map(|v| v.1) {
            Some(Kind::Scalar) => Val::S(String::new()),
            Some(Kind::Int) => Val::I(0),
            Some(Kind::List) => Val::L(vec![String::new()]),
            None => {
                obs.excluded = true;
                return Ok(());
            }
        };
        // ask before and after every call (an answer must never be remembered), and build list
        // variables through push_* every other time
        let set_so_far: Vec<usize> = order.iter().take_while(|x| *x != i).copied().collect();
        let complete_so_far = m::required().iter().all(|r| set_so_far.contains(r));
        if s.is_completed() != complete_so_far {
            return Err(format!("is_completed() = {} after setting {:?}", s.is_completed(), set_so_far));
        }
        match (&v, i % 2) {
            (Val::L(l), 1) => {
                for x in l {
                    sumapi::push(&mut s, *i, x)?;
                }
            }
            _ => sumapi::set(&mut s, *i, &v)?,
        }
    }
    let want = m::required().iter().all(|r| c.vars.contains(r));
    obs.verdicts += 1;
    if s.is_completed() != want {
        return Err(format!(
            "is_completed() = {} with variables {:?} set (all eleven required set: {})",
            s.is_completed(),
            c.vars.iter().map(|i| VARS[*i].0).collect::<Vec<_>>(),
            want
        ));
    }
    let missing = m::required().iter().filter(|r| !c.vars.contains(r)).count();
    obs.nontrivial = missing <= 1;
    obs.class(if want { "complete" } else { "incomplete" });
    Ok(())
}

pub fn property() -> Property {
    Property {
        id: "C08",
        rule: "Entry texts as line lists: (a) all required variables shuffled with 0-7 extra lines (repetitions, optional variables), (b) the same with exactly one injected fault - a line without '=' (also the empty line), an unknown / misspelt / blank-padded / lower-case name, a non-integer FILE_SIZE or SIZE_PKG (empty, NaN, 12a, ' 5', 2^63, 1.0 ...), or one required variable removed -, (c) with 2-3 faults, (d) any subset / order / repetition of the 23 variables; integer values incl. +5, -0, 007; final newline present or absent. Enumerated stream: each of the eleven required variables removed in turn (4 layouts) and every pair removed. Oracle: M-summary.parse - Ok iff every line is VAR=value with a known VAR, integer sizes and all eleven required present; then all 23 getters equal the model (first-'=' split, accumulation order, last-wins) and is_completed(); otherwise the error must be one of the causes actually present in the text (ParseLine(that line), ParseVariable(that name), ParseInt, Incomplete(a variable that is missing)) - with a single cause that is exact. Third stream: all 2^11 subsets of required variables set through the API -> is_completed() iff all eleven. Non-trivial = a repeated variable or a rejection cause is present (third stream: at most one required variable missing). Distinct = distinct texts. Generators also draw, at low weight, tokens from the source-literal dictionary (every string / byte / character literal of the library's own source, collected at build time and filtered by this domain's character class) (as variable names); faults also: a random single-edit misspelling of a supported name; non-integers incl. '12=34', '4321=', full-width / Arabic digits, '1_000', U+2212. Stream misspelt: every name at edit distance one (substitution / insertion with A-Z and '_', deletion, transposition, one lower-case letter) from the 23 supported names, 12 212 names, each as an extra line of a complete entry.",
        assumptions: vec![
            "with several causes present any one of them may be reported",
            "integers are [+-]?[0-9]+ within i64",
        ],
        streams: vec![
            random_stream("texts", "generated entry texts with 0-3 injected faults", case_strategy, |t| t.pick(100_000, 6_000_000), check),
            enumerated_stream("missing", "each required variable (and each pair) removed from a complete entry", enumerate_missing, check),
            enumerated_stream("misspelt", "every name at edit distance one from a supported name, as an extra line of a complete entry", enumerate_misspelt, check),
            enumerated_stream("is_completed", "all subsets of required variables set through the API", subsets, check_completed), crate::fuzz::replay_stream()],
        selfcheck: m::selfcheck,
        hang_is_violation: false,
        min_nontrivial_share: 0.2,
        extra: Some(crate::fuzz::extra),
    }
}
