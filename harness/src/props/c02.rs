//! C02 — a dewey pattern matches exactly the same-base packages inside its range.

use crate::engine::*;
use crate::models::dewey::Letters;
use crate::models::pattern as m;
use pkgsrc::{Dewey, Pattern};
use proptest::prelude::*;
use serde::{Deserialize, Serialize};

#[derive(Clone, Debug, Serialize, Deserialize)]
pub struct Case {
    pub pattern: String,
    pub name: String,
}

pub const BASES: [&str; 14] =
    ["", "a", "ab", "a-b", "a--b", "a-b-c", "-a", "é", "A", "a1", "a.b", "a+", "a*", "[a]"];
/// bounds without plain letters (KF-1 cannot interfere); some sort below the empty version
pub const BOUNDS: [&str; 17] = [
    "", "0", "1", "1.0", "1.5", "2", "1.0nb1", "1.0rc1", "2.0beta1", "10", "1.0.1", "0.9", "0rc1", "alpha1", "0.0pre3", "rc", "nb1",
];
pub const OPTXT: [&str; 4] = ["<", "<=", ">", ">="];

fn pattern_strategy() -> BoxedStrategy<(String, String)> {
    // returns (base, pattern)
    (
        0usize..BASES.len(),
        prop::collection::vec((0usize..4, 0usize..BOUNDS.len()), 0..=3),
        prop::option::weighted(0.05, prop::sample::select(vec!["=", "é", " ", "-", "=="])),
    )
        .prop_map(|(b, ops, extra)| {
            let mut p = BASES[b].to_string();
            for (o, bd) in ops {
                p.push_str(OPTXT[o]);
                p.push_str(BOUNDS[bd]);
            }
            if let Some(x) = extra {
                p.push_str(x);
            }
            (BASES[b].to_string(), p)
        })
        .boxed()
}

fn related_base(base: &str, rel: u8) -> String {
    let cs: Vec<char> = base.chars().collect();
    match rel {
        0 => cs[..cs.len().saturating_sub(1)].iter().collect(), // proper prefix
        1 => cs[cs.len().min(1)..].iter().collect(),            // proper suffix
        2 => format!("{}-x", base),                             // extension
        3 => base.split('-').next().unwrap_or("").to_string(),  // first '-'-segment only
        4 => base
            .chars()
            .map(|c| if c.is_ascii_lowercase() { c.to_ascii_uppercase() } else { c.to_ascii_lowercase() })
            .collect(),
        5 => format!("x{}", base),
        _ => "zz".to_string(),
    }
}

fn case_strategy(_t: Tier) -> BoxedStrategy<Case> {
    (pattern_strategy(), 0u8..20, 0usize..BOUNDS.len() + 3, any::<bool>())
        .prop_map(|((base, pattern), rel, v, nodash)| {
            let nbase = if rel < 11 { base.clone() } else { related_base(&base, rel - 11) };
            let ver = match v.checked_sub(BOUNDS.len()) {
                None => BOUNDS[v].to_string(),
                Some(0) => "1.0pre1".to_string(),
                Some(1) => "3".to_string(),
                Some(_) => "1.0nb2".to_string(),
            };
            let name = if nodash && rel % 5 == 0 { nbase } else { format!("{}-{}", nbase, ver) };
            // now and then the candidate is the pattern's own text
            let name = if !nodash && v == 1 && rel % 4 == 3 { pattern.clone() } else { name };
            Case { pattern, name }
        })
        .boxed()
}

pub fn check(c: &Case, obs: &mut Obs) -> Result<(), String> {
    let (p, n) = (c.pattern.as_str(), c.name.as_str());
    if p.contains(['{', '}']) {
        obs.excluded = true;
        return Ok(());
    }
    let model = m::dewey_compile(p);
    let d = Dewey::new(p);
    obs.verdicts += 1;
    if d.is_ok() != model.is_ok() {
        return Err(format!(
            "Dewey::new({:?}) is {}, pattern model says {:?}",
            p,
            if d.is_ok() { "Ok" } else { "Err" },
            model.as_ref().map(|_| "compiles")
        ));
    }
    if p.contains(['<', '>']) {
        let pp = Pattern::new(p);
        obs.verdicts += 1;
        if pp.is_ok() != model.is_ok() {
            return Err(format!(
                "Pattern::new({:?}) is {}, pattern model says {:?}",
                p,
                if pp.is_ok() { "Ok" } else { "Err" },
                model.as_ref().map(|_| "compiles")
            ));
        }
        if let (Ok(pp), Ok(dm)) = (&pp, &model) {
            let want = m::dewey_matches(dm, n, Letters::Rank);
            let got = pp.matches(n);
            obs.verdicts += 1;
            if got != want {
                return Err(format!("Pattern {:?} matches({:?}) = {}, model says {}", p, n, got, want));
            }
        }
    }
    match (&d, &model) {
        (Ok(d), Ok(dm)) => {
            let want = m::dewey_matches(dm, n, Letters::Rank);
            let got = d.matches(n);
            obs.verdicts += 1;
            if got != want {
                return Err(format!("Dewey {:?} matches({:?}) = {}, model says {}", p, n, got, want));
            }
            if d.matches(n) != got {
                return Err(format!("Dewey {:?} matches({:?}) answers differently the second time", p, n));
            }
            obs.class(if want { "match" } else { "no-match" });
            obs.class(if dm.bounds.len() == 2 { "two-bounds" } else { "one-bound" });
            if let Some(pos) = n.rfind('-') {
                let nb = &n[..pos];
                if nb != dm.base {
                    obs.class("base-differs");
                    obs.nontrivial = true;
                } else {
                    obs.class("base-equal");
                    // "within one step of a bound": the version text equals a bound, or flips when
                    // the operator's strictness flips
                    let nv = &n[pos + 1..];
                    if dm.bounds.iter().any(|(_, b)| {
                        crate::models::dewey::cmp(nv, b, Letters::Rank) == std::cmp::Ordering::Equal
                    }) {
                        obs.class("version-on-a-bound");
                    }
                    obs.nontrivial = true;
                }
            } else {
                obs.class("name-without-dash");
            }
        }
        _ => {
            obs.class("pattern-rejected");
            obs.nontrivial = true;
        }
    }
    Ok(())
}

/// complete enumeration: bases x operator shapes x bounds^k  x  base relations x versions
fn enumerate(tier: Tier) -> Box<dyn Iterator<Item = Case>> {
    let bounds: Vec<&'static str> = match tier {
        Tier::Quick => vec!["", "1", "1.0", "1.0nb1", "2", "0rc1"],
        Tier::Thorough => BOUNDS.to_vec(),
    };
    let bases: Vec<&'static str> = match tier {
        Tier::Quick => vec!["", "a", "a-b", "é"],
        Tier::Thorough => BASES.to_vec(),
    };
    let versions: Vec<&'static str> = match tier {
        Tier::Quick => vec!["", "1", "1.0", "1.0.0", "1.0nb1", "1.0rc1", "2", "3", "0rc1", "alpha"],
        Tier::Thorough => vec!["", "0", "1", "1.0", "1.0nb1", "1.0rc1", "1.5", "2", "2.0beta1", "10", "3", "0rc1", "alpha", "0.0pre3", "nb2"],
    };
    // operator shapes: 0, 1, 2 and 3 operators
    let mut shapes: Vec<Vec<usize>> = vec![vec![]];
    for a in 0..4 {
        shapes.push(vec![a]);
        for b in 0..4 {
            shapes.push(vec![a, b]);
        }
    }
    shapes.push(vec![2, 0, 0]);
    shapes.push(vec![3, 1, 2]);
    let mut patterns: Vec<(String, String)> = vec![];
    for b in &bases {
        for sh in &shapes {
            let k = sh.len();
            let combos = bounds.len().pow(k as u32);
            for mut idx in 0..combos {
                let mut p = b.to_string();
                for o in sh {
                    p.push_str(OPTXT[*o]);
                    p.push_str(bounds[idx % bounds.len()]);
                    idx /= bounds.len();
                }
                patterns.push((b.to_string(), p));
            }
        }
    }
    Box::new(patterns.into_iter().flat_map(move |(base, p)| {
        let mut names = vec![];
        for rel in 0..8u8 {
            let nb = if rel == 0 { base.clone() } else { related_base(&base, rel - 1) };
            for v in &versions {
                names.push(format!("{}-{}", nb, v));
            }
            names.push(nb);
        }
        // the pattern's own text as the candidate
        names.push(p.clone());
        names.into_iter().map(move |n| Case { pattern: p.clone(), name: n })
    }))
}

// ------------------------------------------------------------------ realistic stream

fn real_patterns() -> Vec<&'static str> {
    crate::props::c17::SEED_PKGDEPS.lines().filter(|l| l.contains(['<', '>']) && !l.contains(['{', '}'])).collect()
}
fn real_names() -> Vec<&'static str> {
    crate::props::c17::SEED_PKGNAMES.lines().filter(|l| !l.is_empty()).collect()
}

fn real_strategy(_t: Tier) -> BoxedStrategy<Case> {
    let pats = real_patterns();
    let names = real_names();
    (0..pats.len(), 0..names.len(), 0u8..10, any::<u16>())
        .prop_map(move |(i, j, mode, sel)| {
            let pattern = pats[i].to_string();
            let base: String = pattern.chars().take_while(|c| *c != '<' && *c != '>').collect();
            let nm = names[j];
            let ver = nm.rsplit('-').next().unwrap_or("");
            let name = match mode {
                // the real base with the version of some real package
                0..=4 => format!("{}-{}", base, ver),
                // the real base with one of the pattern's own bounds (+ a revision)
                5..=6 => {
                    let bounds: Vec<&str> = pattern[base.len()..].split(['<', '>', '=']).filter(|b| !b.is_empty()).collect();
                    let b = if bounds.is_empty() { "" } else { bounds[crate::engine::gen::idx(sel, bounds.len())] };
                    if sel % 2 == 0 { format!("{}-{}", base, b) } else { format!("{}-{}nb{}", base, b, sel % 3) }
                }
                // an unrelated real package
                _ => nm.to_string(),
            };
            Case { pattern, name }
        })
        .boxed()
}

/// real pkgsrc patterns carry letter suffixes, so the KF-1 leniency of C01 applies here
pub fn check_real(c: &Case, obs: &mut Obs) -> Result<(), String> {
    let (p, n) = (c.pattern.as_str(), c.name.as_str());
    let Ok(dm) = m::dewey_compile(p) else {
        obs.excluded = true;
        return Ok(());
    };
    if p.contains(['{', '}']) || !crate::models::dewey::numbers_in_domain(p) || !crate::models::dewey::numbers_in_domain(n) {
        obs.excluded = true;
        return Ok(());
    }
    let want = m::dewey_matches(&dm, n, Letters::Rank);
    let ascii = m::dewey_matches(&dm, n, Letters::AsciiLower);
    let pp = Pattern::new(p).map_err(|e| format!("real pattern {:?} rejected: {}", p, e))?;
    let dd = Dewey::new(p).map_err(|e| format!("real pattern {:?} rejected by Dewey: {}", p, e))?;
    for (what, got) in [("Pattern", pp.matches(n)), ("Dewey", dd.matches(n))] {
        obs.verdicts += 1;
        if got == want {
            continue;
        }
        if want != ascii && got == ascii {
            obs.known_hits.push(crate::props::c01::KF1);
            continue;
        }
        return Err(format!("{} {:?} matches({:?}) = {}, model says {}", what, p, n, got, want));
    }
    obs.nontrivial = n.contains('-');
    obs.class(if want { "match" } else { "no-match" });
    if dm.bounds.len() == 2 {
        obs.class("two-bounds");
    }
    if n.rsplit('-').next().map(|v| v.chars().any(|c| c.is_ascii_alphabetic())).unwrap_or(false) {
        obs.class("version-with-letters");
    }
    Ok(())
}

// ------------------------------------------------------------------ free-form stream

/// characters of a free-form base (no braces, no operators, no control characters)
fn base_char(c: char) -> bool {
    !c.is_control() && !"{}<>".contains(c)
}

/// base = pool base, a token of the library's source, or two of them joined by '-';
/// bounds and versions = free version-token sequences (letters and dictionary tokens included)
pub fn free_strategy(_t: Tier) -> BoxedStrategy<Case> {
    use crate::props::vergen;
    let base = prop_oneof![
        2 => (0usize..BASES.len()).prop_map(|i| BASES[i].to_string()),
        3 => crate::engine::dict::string_token(base_char, "a"),
        1 => (crate::engine::dict::string_token(base_char, "a"), crate::engine::dict::string_token(base_char, "b")).prop_map(|(a, b)| format!("{}-{}", a, b)),
    ];
    (
        base,
        prop::collection::vec((0usize..4, vergen::tokens(5)), 1..=2),
        0u8..20,
        prop::option::of(vergen::tokens(5)),
        prop::collection::vec(vergen::edit(), 0..=2),
        any::<u16>(),
        prop::option::weighted(0.08, crate::engine::dict::string_token(vergen::version_token_char, "a")),
    )
        .prop_map(|(base, mut ops, rel, ver, edits, sel, suffix)| {
            // now and then both bounds are the same text, or one bound is very long
            if ops.len() == 2 && sel % 8 == 3 {
                ops[1].1 = ops[0].1.clone();
            }
            if sel % 64 == 5 {
                let n = 200 + (sel as usize >> 6) % 400;
                ops[0].1.insert(0, if n % 2 == 0 { "0." } else { "1." }.repeat(n));
            }
            let mut pattern = base.clone();
            for (o, b) in &ops {
                pattern.push_str(OPTXT[*o]);
                pattern.push_str(&vergen::render(b, 18));
            }
            let nbase = if rel < 13 { base.clone() } else { related_base(&base, rel - 13) };
            // the version: free, or one of the bounds after 0-2 edits
            let ver = match ver {
                Some(v) => vergen::render(&v, 18),
                None => {
                    let mut b = ops[crate::engine::gen::idx(sel, ops.len())].1.clone();
                    for e in &edits {
                        vergen::apply_edit(&mut b, e);
                    }
                    vergen::render(&b, 18)
                }
            };
            let pattern = crate::models::dewey::cap_digit_runs(&pattern, 18);
            // now and then the candidate is the pattern's own text
            // (a token of the library's own source glued to the end of the version, now and then)
            let ver = match suffix {
                Some(s) => format!("{}{}", ver, s),
                None => ver,
            };
            let name = if sel % 32 == 7 { pattern.clone() } else { crate::models::dewey::cap_digit_runs(&format!("{}-{}", nbase, ver), 18) };
            Case { pattern, name }
        })
        .boxed()
}

/// compile agreement as in `check`, match verdicts with the KF-1 leniency of `check_real`
pub fn check_free(c: &Case, obs: &mut Obs) -> Result<(), String> {
    let (p, n) = (c.pattern.as_str(), c.name.as_str());
    if p.contains(['{', '}']) || !crate::models::dewey::numbers_in_domain(p) || !crate::models::dewey::numbers_in_domain(n) {
        obs.excluded = true;
        return Ok(());
    }
    let model = m::dewey_compile(p);
    let d = Dewey::new(p);
    let pp = Pattern::new(p);
    obs.verdicts += 2;
    if d.is_ok() != model.is_ok() {
        return Err(format!("Dewey::new({:?}) is {}, pattern model says {:?}", p, if d.is_ok() { "Ok" } else { "Err" }, model.as_ref().map(|_| "compiles")));
    }
    if p.contains(['<', '>']) && pp.is_ok() != model.is_ok() {
        return Err(format!("Pattern::new({:?}) is {}, pattern model says {:?}", p, if pp.is_ok() { "Ok" } else { "Err" }, model.as_ref().map(|_| "compiles")));
    }
    let (Ok(dm), Ok(dd), Ok(pp)) = (model, d, pp) else {
        obs.class("pattern-rejected");
        obs.nontrivial = true;
        return Ok(());
    };
    let want = m::dewey_matches(&dm, n, Letters::Rank);
    let ascii = m::dewey_matches(&dm, n, Letters::AsciiLower);
    for (what, got) in [("Pattern", pp.matches(n)), ("Dewey", dd.matches(n))] {
        obs.verdicts += 1;
        if got == want {
            continue;
        }
        if want != ascii && got == ascii {
            obs.known_hits.push(crate::props::c01::KF1);
            continue;
        }
        return Err(format!("{} {:?} matches({:?}) = {}, model says {}", what, p, n, got, want));
    }
    obs.nontrivial = n.contains('-');
    obs.class(if want { "match" } else { "no-match" });
    if dm.bounds.len() == 2 {
        obs.class("two-bounds");
    }
    if let Some(pos) = n.rfind('-') {
        obs.class(if n[..pos] == dm.base { "base-equal" } else { "base-differs" });
    }
    Ok(())
}

pub fn property() -> Property {
    Property {
        id: "C02",
        rule: "Patterns = base (14 bases incl. empty, with '-', '--', non-ASCII, glob characters) followed by 0-3 operators, each any of < <= > >=, with bounds from a letter-free pool incl. the empty bound (so all 16 two-operator orders, adjacent operators and the 0/3-operator errors occur), occasionally followed by '=', '-', non-ASCII. Names = related base (equal 55%, proper prefix / suffix, extended by -x, first '-'-segment, case-flipped, prefixed, unrelated) + '-' + version from the pool, or without any '-'. Oracle: M-dewey-pattern (compile: Ok/Err must agree for Dewey::new and Pattern::new; matches: Dewey::matches = Pattern::matches = model). A second stream enumerates the product space completely; a third pairs ~1 800 real pkgsrc dewey patterns with real package versions and with their own bounds (letters allowed, KF-1 region judged as in C01). Non-trivial = the pattern is rejected, or it compiles and the name has a '-'. Distinct = distinct (pattern, name). Generators also draw, at low weight, tokens from the source-literal dictionary (every string / byte / character literal of the library's own source, collected at build time and filtered by this domain's character class) (stream free-form: dictionary bases, bounds and versions as free C01 token sequences, a bound edited into the version, KF-1 leniency); in every stream the candidate is now and then the pattern's own text.",
        assumptions: vec![
            "bounds and versions are letter-free, so known finding KF-1 cannot influence a verdict",
            "M-dewey-pattern and M-dewey are written from the statements of C02 / C01",
        ],
        streams: vec![
            random_stream("random", "random (pattern, name) pairs", case_strategy, |t| t.pick(200_000, 10_000_000), check),
            enumerated_stream("enumerated", "complete product: bases x operator shapes x bounds x base relations x versions", enumerate, check),
            random_stream("free-form", "bases from the pool and from the library's own literals, bounds and versions as free token sequences (letters included, KF-1 leniency as in C01)", free_strategy, |t| t.pick(60_000, 5_000_000), check_free),
            random_stream("realistic", "real pkgsrc dewey patterns (sample of tests/data/pkgdeps.txt) against real package versions (pkgnames.txt), KF-1 leniency as in C01", real_strategy, |t| t.pick(60_000, 5_000_000), check_real), crate::fuzz::replay_stream()],
        selfcheck: m::selfcheck,
        hang_is_violation: false,
        min_nontrivial_share: 0.2,
        extra: Some(crate::fuzz::extra),
    }
}
