//! C09 — streamed pkg_summary parsing is independent of how the bytes are chunked.

use crate::engine::gen::idx;
use crate::engine::*;
use crate::models::summary::{self as m, Assignment};
use crate::props::{sumapi, sumgen};
use pkgsrc::summary::SummaryStream;
use proptest::prelude::*;
use serde::{Deserialize, Serialize};
use std::collections::HashSet;
use std::io::Write;

#[derive(Clone, Debug, Serialize, Deserialize)]
pub struct Case {
    /// entry texts (lines, each ending in LF), without the terminating blank line
    pub entries: Vec<B>,
    /// index of the one malformed entry, if any
    pub bad: Option<usize>,
    /// seed of the random partitions
    pub rand: u64,
    /// when present only this partition (sorted cut offsets) is run
    pub cuts: Option<Vec<usize>>,
}

fn entry_text() -> BoxedStrategy<String> {
    sumgen::assignment(sumgen::stream_text).prop_map(|a| m::print(&a)).boxed()
}

/// a malformed entry: C08 fault or an invalid UTF-8 byte; never an empty line inside
fn bad_entry() -> BoxedStrategy<Vec<u8>> {
    (entry_text(), 0u8..11, any::<u16>())
        .prop_map(|(good, kind, sel)| {
            let mut lines: Vec<String> = good.lines().map(String::from).collect();
            match kind {
                // (9, 10: a long line without '=', multi-byte characters spread over its second half)
                9 | 10 => {
                    let n = 120 + (sel as usize % 200);
                    let ch = ["é", "日", "💖"][(sel % 3) as usize];
                    lines.insert(idx(sel, lines.len() + 1), format!("{}{}", "x".repeat(n), ch.repeat(40)));
                }
                0 => lines.insert(idx(sel, lines.len() + 1), "no equals sign".into()),
                1 => lines.insert(idx(sel, lines.len() + 1), "PKG_NAME=x".into()),
                2 => lines.insert(idx(sel, lines.len() + 1), "FILE_SIZE=12a".into()),
                3 => lines.retain(|l| !l.starts_with("PKGNAME=")),
                4 => lines.retain(|l| !l.starts_with("SIZE_PKG=")),
                _ => {}
            }
            let mut bytes = (lines.join("\n") + "\n").into_bytes();
            if kind >= 9 {
                // (nothing more to do)
            } else if kind >= 7 {
                // a truncated multi-byte sequence as the very last bytes of the entry
                let tail: &[u8] = [&b"\xc3"[..], b"\xe2\x82", b"\xf0\x9f\x92"][(sel % 3) as usize];
                let at = bytes.len() - 1;
                bytes.splice(at..at, tail.iter().copied());
            } else if kind >= 5 {
                // invalid UTF-8 inside a value
                let eqs: Vec<usize> = bytes.iter().enumerate().filter(|(_, b)| **b == b'=').map(|(i, _)| i).collect();
                let at = eqs[idx(sel, eqs.len())] + 1;
                bytes.insert(at, if kind == 5 { 0xff } else { 0xc3 });
            }
            bytes
        })
        .boxed()
}

/// only the required variables with very short values: the whole stream stays below the
/// all-pairs limit
fn compact_entry_text() -> BoxedStrategy<String> {
    let tiny = || prop::sample::select(vec!["", "a", "é", "€", "💖", "=", "1"]).prop_map(String::from).boxed();
    sumgen::assignment(tiny)
        .prop_map(|a| {
            let req: Assignment = a.into_iter().filter(|(i, _)| m::VARS[*i].2).collect();
            m::print(&req)
        })
        .boxed()
}

/// long streams (20-70 compact entries, 3-10 KiB): one generated partition per case - a fixed
/// chunk size, a few random cuts, or a single write - optionally with one malformed entry
fn long_strategy(_tier: Tier) -> BoxedStrategy<Case> {
    (
        prop::collection::vec(compact_entry_text(), 20..70),
        prop::option::weighted(0.3, (bad_entry(), any::<u16>())),
        prop_oneof![
            3 => prop::sample::select(vec![1usize, 7, 64, 100, 1000, 1024, 2048, 4096, 8192]).prop_map(|n| (n, vec![])),
            2 => prop::collection::vec(any::<u16>(), 1..12).prop_map(|v| (0usize, v)),
            1 => Just((0usize, vec![])),
        ],
    )
        .prop_map(|(es, bad, (chunk, sels))| {
            let mut entries: Vec<B> = es.into_iter().map(|e| B(e.into_bytes())).collect();
            let mut bi = None;
            if let Some((b, pos)) = bad {
                let k = idx(pos, entries.len() + 1);
                entries.insert(k, B(b));
                bi = Some(k);
            }
            let total: usize = entries.iter().map(|e| e.0.len() + 1).sum();
            let mut cuts: Vec<usize> = if chunk > 0 {
                (1..).map(|k| k * chunk).take_while(|c| *c < total).collect()
            } else {
                sels.iter().map(|s| idx(*s, total + 1)).collect()
            };
            cuts.sort();
            Case { entries, bad: bi, rand: 0, cuts: Some(cuts) }
        })
        .boxed()
}

fn case_strategy(tier: Tier) -> BoxedStrategy<Case> {
    let max_entries = tier.pick(3, 5);
    let good = prop::collection::vec(entry_text(), 1..=max_entries);
    prop_oneof![
        2 => (compact_entry_text(), prop::option::weighted(0.4, bad_entry()), any::<bool>(), any::<u64>()).prop_map(|(e, bad, first, rand)| {
            let mut entries = vec![B(e.into_bytes())];
            let mut bi = None;
            if let Some(b) = bad {
                if b.len() < 110 {
                    if first { entries.insert(0, B(b)); bi = Some(0); } else { entries.push(B(b)); bi = Some(1); }
                }
            }
            Case { entries, bad: bi, rand, cuts: None }
        }),
        3 => (good.clone(), any::<u64>(), prop::option::weighted(0.25, any::<u16>())).prop_map(|(mut es, rand, dup)| {
            // one stream in four repeats an entry verbatim right behind itself
            if let Some(sel) = dup {
                let k = idx(sel, es.len());
                let e = es[k].clone();
                es.insert(k, e);
            }
            Case { entries: es.into_iter().map(|e| B(e.into_bytes())).collect(), bad: None, rand, cuts: None }
        }),
        2 => (prop::collection::vec(entry_text(), 0..max_entries), bad_entry(), any::<u16>(), any::<u64>()).prop_map(|(es, bad, pos, rand)| {
            let mut entries: Vec<B> = es.into_iter().map(|e| B(e.into_bytes())).collect();
            let k = idx(pos, entries.len() + 1);
            entries.insert(k, B(bad));
            Case { entries, bad: Some(k), rand, cuts: None }
        }),
    ]
    .boxed()
}

fn chunks<'a>(stream: &'a [u8], cuts: &[usize]) -> Vec<&'a [u8]> {
    let mut out = vec![];
    let mut last = 0;
    for c in cuts {
        out.push(&stream[last..*c]);
        last = *c;
    }
    out.push(&stream[last..]);
    out
}

pub const PAIR_LIMIT: usize = 240;

fn splitmix(x: &mut u64) -> u64 {
    *x = x.wrapping_add(0x9e3779b97f4a7c15);
    let mut z = *x;
    z = (z ^ (z >> 30)).wrapping_mul(0xbf58476d1ce4e5b9);
    z = (z ^ (z >> 27)).wrapping_mul(0x94d049bb133111eb);
    z ^ (z >> 31)
}

/// the partitions explored for one stream (as sorted cut lists; repeated offsets = empty chunks)
fn partitions(len: usize, rand: u64, pair_limit: usize) -> Vec<Vec<usize>> {
    let mut out: Vec<Vec<usize>> = vec![vec![]];
    for c in 1..len {
        out.push(vec![c]);
    }
    if len <= pair_limit {
        for a in 1..len {
            for b in a + 1..len {
                out.push(vec![a, b]);
            }
        }
    }
    for size in 1..len {
        if len / size > 400 && size > 1 {
            continue;
        }
        let cuts: Vec<usize> = (1..).map(|k| k * size).take_while(|c| *c < len).collect();
        if cuts.len() > 2 || len > pair_limit {
            out.push(cuts);
        }
    }
    let mut st = rand;
    // (zero-length writes at line ends are added by the caller, which knows the bytes)
    for _ in 0..64 {
        let n = 1 + (splitmix(&mut st) % 8) as usize;
        let mut cuts: Vec<usize> = (0..n).map(|_| (splitmix(&mut st) % (len as u64 + 1)) as usize).collect();
        cuts.sort();
        out.push(cuts);
    }
    out
}

fn cut_is_interesting(stream: &[u8], c: usize) -> bool {
    if c == 0 || c >= stream.len() {
        return false;
    }
    // strictly inside a multi-byte character, or between the two LF of a separator
    (stream[c] & 0xc0) == 0x80 || (stream[c - 1] == b'\n' && stream[c] == b'\n')
}

fn entries_text(s: &SummaryStream) -> Vec<String> {
    s.entries().iter().map(|e| e.to_string()).collect()
}

struct Expect {
    stream: Vec<u8>,
    good_before: Vec<String>,       // printed form of the well-formed entries preceding the bad one (or all)
    all: Vec<Assignment>,           // when well-formed
    bad_end: Option<usize>,         // exclusive end offset of the bad entry's terminator
}

fn run_partition(x: &Expect, cuts: &[usize]) -> Result<(), String> {
    let mut s = SummaryStream::new();
    let parts = chunks(&x.stream, cuts);
    let mut offset = 0usize;
    for (k, part) in parts.iter().enumerate() {
        let r = s.write(part);
        let end = offset + part.len();
        match (r, x.bad_end) {
            (Ok(n), _) => {
                if n != part.len() {
                    return Err(format!("write #{} returned Ok({}) for a chunk of {} bytes (cuts {:?})", k, n, part.len(), cuts));
                }
                if let Some(e) = x.bad_end {
                    if end >= e {
                        return Err(format!(
                            "malformed entry ends at byte {} but the write covering bytes {}..{} (cuts {:?}) still succeeded",
                            e, offset, end, cuts
                        ));
                    }
                }
            }
            (Err(e), None) => {
                return Err(format!(
                    "well-formed stream: write #{} (bytes {}..{}, cuts {:?}) failed: {}",
                    k, offset, end, cuts, e
                ))
            }
            (Err(e), Some(_)) => {
                if e.kind() != std::io::ErrorKind::InvalidData {
                    return Err(format!("malformed entry reported as {:?}, expected InvalidData (cuts {:?})", e.kind(), cuts));
                }
                let got = entries_text(&s);
                if got != x.good_before {
                    return Err(format!(
                        "at the failing write (cuts {:?}) {} entries are collected, but {} well-formed entries precede the malformed one\n got: {:?}\nwant: {:?}",
                        cuts,
                        got.len(),
                        x.good_before.len(),
                        got,
                        x.good_before
                    ));
                }
                return Ok(());
            }
        }
        offset = end;
    }
    if x.bad_end.is_some() {
        return Err(format!("malformed stream was accepted completely (cuts {:?})", cuts));
    }
    let got = entries_text(&s);
    if got != x.good_before {
        return Err(format!(
            "after all chunks (cuts {:?}) the collected entries differ from the stream's entries\n got: {:?}\nwant: {:?}",
            cuts, got, x.good_before
        ));
    }
    for (e, a) in s.entries().iter().zip(x.all.iter()) {
        sumapi::compare(e, a, "streamed entry")?;
    }
    if s.to_string().as_bytes() != x.stream.as_slice() {
        return Err(format!("printing the collection does not reproduce the stream (cuts {:?})", cuts));
    }
    Ok(())
}

pub fn check(c: &Case, obs: &mut Obs) -> Result<(), String> {
    // ---- domain
    let mut stream = vec![];
    let mut good_before = vec![];
    let mut all = vec![];
    let mut bad_end = None;
    for (i, e) in c.entries.iter().enumerate() {
        let ok_shape = !e.0.is_empty() && e.0.ends_with(b"\n") && !e.0.starts_with(b"\n") && !e.0.windows(2).any(|w| w == b"\n\n") && !e.0.windows(2).any(|w| w == b"\r\n");
        // (a CR directly in front of a LF is a DOS line end to the entry parser and would not be
        // printed back; a CR anywhere else is an ordinary byte of the value)
        if !ok_shape {
            obs.excluded = true;
            return Ok(());
        }
        let parsed = std::str::from_utf8(&e.0).ok().map(m::parse);
        if Some(i) == c.bad {
            if matches!(parsed, Some(Ok(_))) {
                obs.excluded = true; // the "bad" entry is in fact fine
                return Ok(());
            }
        } else {
            match parsed {
                Some(Ok(a)) => {
                    if bad_end.is_none() {
                        good_before.push(m::print(&a));
                    }
                    all.push(a);
                }
                _ => {
                    obs.excluded = true;
                    return Ok(());
                }
            }
        }
        stream.extend_from_slice(&e.0);
        stream.push(b'\n');
        if Some(i) == c.bad {
            bad_end = Some(stream.len());
        }
    }
    if stream.is_empty() || c.bad.map(|b| b >= c.entries.len()).unwrap_or(false) {
        obs.excluded = true;
        return Ok(());
    }
    let x = Expect { stream, good_before, all, bad_end };
    // ---- the one-call result is the reference for the well-formed case
    run_partition(&x, &[])?;
    let parts: Vec<Vec<usize>> = match &c.cuts {
        Some(cuts) => {
            let mut v = cuts.clone();
            v.retain(|c| *c <= x.stream.len());
            v.sort();
            vec![v]
        }
        None => {
            let mut v = partitions(x.stream.len(), c.rand, PAIR_LIMIT);
            // a zero-length write (a doubled cut) at line ends, at the start and at the end
            let line_ends: Vec<usize> = (1..=x.stream.len()).filter(|i| x.stream[*i - 1] == b'\n').take(80).collect();
            for e in &line_ends {
                v.push(vec![*e, *e]);
            }
            v.push(vec![0, 0]);
            v.push(line_ends.iter().flat_map(|e| [*e, *e]).collect());
            v
        }
    };
    let mut seen: HashSet<&[usize]> = HashSet::new();
    let mut interesting = 0u64;
    for cuts in &parts {
        if !seen.insert(cuts.as_slice()) {
            continue;
        }
        run_partition(&x, cuts)?;
        obs.verdicts += 1;
        obs.sub_evaluations += 1;
        if x.bad_end.is_some() || cuts.iter().any(|c| cut_is_interesting(&x.stream, *c)) {
            interesting += 1;
        }
    }
    obs.sub_nontrivial_distinct = interesting;
    obs.nontrivial = interesting > 0;
    obs.class(if x.bad_end.is_some() { "malformed-stream" } else { "well-formed-stream" });
    if x.stream.len() <= PAIR_LIMIT {
        obs.class("all-pairs-of-cuts");
    }
    if !x.stream.is_ascii() {
        obs.class("multi-byte-characters");
    }
    if let Some(b) = c.bad {
        if std::str::from_utf8(&c.entries[b].0).is_err() {
            obs.class("bad-entry-invalid-utf8");
        }
        obs.class(if b == 0 { "bad-entry-first" } else if b + 1 == c.entries.len() { "bad-entry-last" } else { "bad-entry-middle" });
    }
    Ok(())
}

pub fn property() -> Property {
    Property {
        id: "C09",
        rule: "Streams of 1-5 entries (all required variables + random optional ones; short values with 2-, 3- and 4-byte characters at the start, the end and next to '='), each followed by one blank line. For every stream the check itself enumerates partitions: the one-call write, every single cut, every pair of cuts (streams <= 240 bytes), every fixed chunk size, byte-at-a-time, and 64 random partitions of 1-8 cuts including empty chunks. Malformed streams: one bad entry (line without '=', unknown variable, bad integer, missing PKGNAME / SIZE_PKG, or an invalid UTF-8 byte 0xFF / truncated 0xC3 in a value) at any position, same partitions. Oracle (well-formed): every write returns Ok(chunk length); afterwards the entries, printed one by one, equal M-summary's entries in order (all getters compared) and printing the collection reproduces the stream. Oracle (malformed, bad entry's blank line ending at offset e): a write fails with InvalidData no later than the chunk containing byte e-1, every earlier write returned Ok(len), and at that moment entries() are exactly the well-formed entries preceding the bad one. evaluations counts (stream, partition) executions. Non-trivial partition = a cut strictly inside a multi-byte character or between the two LF of a separator, or the stream is malformed; distinct partitions per stream are counted by construction (duplicates removed). Generators also draw, at low weight, tokens from the source-literal dictionary (every string / byte / character literal of the library's own source, collected at build time and filtered by this domain's character class) (values, incl. U+FEFF at the start / end / inside).",
        assumptions: vec![
            "an entry never contains an empty line and never starts with LF; a doubled blank line (an 'empty entry') is not generated because the statement does not say whether it is an entry",
            "after the failing write the behaviour of further writes is not constrained",
        ],
        streams: vec![random_stream(
            "streams",
            "generated streams x enumerated and random partitions",
            case_strategy,
            |t| t.pick(400, 6_000),
            check,
        ), random_stream(
            "long-streams",
            "streams of 20-70 entries (3-10 KiB) x one generated partition (fixed chunk size incl. 1024/2048/4096/8192, random cuts, single write), optionally with one malformed entry",
            long_strategy,
            |t| t.pick(1_500, 40_000),
            check,
        ), crate::fuzz::replay_stream(),
        ],
        selfcheck: m::selfcheck,
        hang_is_violation: false,
        min_nontrivial_share: 0.05,
        extra: Some(crate::fuzz::extra),
    }
}
