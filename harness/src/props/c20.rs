//! C20 — package database iteration lists each installed package once, correctly split.

use crate::engine::*;
use crate::props::c12::scratch;
use pkgsrc::pkgdb::PkgDB;
use pkgsrc::{Metadata, MetadataEntry};
use proptest::prelude::*;
use serde::{Deserialize, Serialize};
use std::collections::BTreeMap;

pub const FILES: [&str; 14] = [
    "+BUILD_INFO", "+BUILD_VERSION", "+COMMENT", "+CONTENTS", "+DEINSTALL", "+DESC", "+DISPLAY", "+INSTALL", "+INSTALLED_INFO",
    "+MTREE_DIRS", "+PRESERVE", "+REQUIRED_BY", "+SIZE_ALL", "+SIZE_PKG",
];
const MANDATORY: [usize; 3] = [2, 3, 5];

fn entry(i: usize) -> MetadataEntry {
    match i {
        0 => MetadataEntry::BuildInfo,
        1 => MetadataEntry::BuildVersion,
        2 => MetadataEntry::Comment,
        3 => MetadataEntry::Contents,
        4 => MetadataEntry::DeInstall,
        5 => MetadataEntry::Desc,
        6 => MetadataEntry::Display,
        7 => MetadataEntry::Install,
        8 => MetadataEntry::InstalledInfo,
        9 => MetadataEntry::MtreeDirs,
        10 => MetadataEntry::Preserve,
        11 => MetadataEntry::RequiredBy,
        12 => MetadataEntry::SizeAll,
        _ => MetadataEntry::SizePkg,
    }
}

#[derive(Clone, Debug, Serialize, Deserialize)]
pub struct Dir {
    pub name: String,
    /// file index -> content
    pub files: BTreeMap<usize, String>,
}

#[derive(Clone, Debug, Serialize, Deserialize)]
pub struct Case {
    pub dirs: Vec<Dir>,
    pub stray_files: Vec<String>,
    /// names (arbitrary bytes, usually not UTF-8) of further stray plain files and of
    /// incomplete directories: they must be skipped like any other non-package entry
    #[serde(default)]
    pub raw_strays: Vec<B>,
    /// how the database directory is spelled when it is opened: 0 plain, 1 trailing '/',
    /// 2 trailing '//', 3 trailing '/.', 4 '/./' in front of the last component, 5 via '<name>/../<name>'
    #[serde(default)]
    pub open_spelling: u8,
    #[serde(default)]
    pub raw_incomplete_dirs: Vec<B>,
}

fn file_name_char(c: char) -> bool {
    c != '/' && c != '\0'
}

fn dir_name() -> BoxedStrategy<String> {
    prop_oneof![
        5 => (prop::sample::select(vec!["foo", "py312-mysqlclient", "a-b-c", "p5-DBD-mysql", "x", "libnbcompat", "é", "-lead", "font-adobe-100dpi", "tex-2up", "lib-2", "3proxy", "a-1-b", "1-2"]), prop::sample::select(vec!["1.0", "2.2.4nb1", "0", "1.0nb12", "20240101", "1.0rc1", ""]))
            .prop_map(|(b, v)| format!("{}-{}", b, v)),
        1 => prop::sample::select(vec!["nodash", "+COMMENT", "pkgdb.byfile.db"]).prop_map(String::from),
        // tokens of the library's own source as (parts of) the directory name
        2 => (prop::sample::select(vec!["", "foo", "a-b", "lib"]), crate::engine::dict::string_token(file_name_char, "x"), prop::sample::select(vec!["", "-1.0", "-2nb1", ".db", "-"]))
            .prop_map(|(a, t, b)| format!("{}{}{}", a, t, b)),
        3 => prop::collection::vec(prop::sample::select(vec!["a", "foo", "2up", "100dpi", "p5", "X", "é", "1", "nb1", "1.0", "", "0nb2", "rc1", "+x"]), 1..=4).prop_map(|v| v.join("-")),
    ]
    .boxed()
}

fn content() -> BoxedStrategy<String> {
    prop_oneof![
        12 => prop::sample::select(vec!["", "A comment\n", "line1\nline2\n", "  padded  \n", "é ü\n", "12345\n", "@name foo-1.0\nbin/foo\n", "\n", "x",
            "#!/bin/sh\r\necho hi\r\n", "a\r\nb", "\r\n", "cr only\r", "\r", "a\rb\n", "tab\there\n", "form\x0cfeed\n", "nul\0byte\n", "\u{feff}bom\n", "trailing blank \n", "\n\nleading\n\n"]).prop_map(String::from),
        2 => (crate::engine::dict::string_token(|_| true, "a"), any::<bool>()).prop_map(|(t, nl)| if nl { format!("{}\n", t) } else { t }),
        // longer than any internal read buffer, with multi-byte characters at arbitrary offsets
        1 => (900usize..5000, 1usize..40, prop::sample::select(vec!["é", "€", "💖", "ü"])).prop_map(|(n, every, ch)| {
            let mut s = String::new();
            let mut k = 0usize;
            while s.len() < n {
                if k % every == every - 1 { s.push_str(ch); } else { s.push((b'a' + (k % 26) as u8) as char); }
                k += 1;
            }
            s.push('\n');
            s
        }),
    ]
    .boxed()
}

fn dir() -> BoxedStrategy<Dir> {
    (dir_name(), prop::collection::btree_map(0usize..14, content(), 0..8), 0u8..10)
        .prop_map(|(name, mut files, complete)| {
            // most directories are complete packages; the rest miss some mandatory files
            if complete < 6 {
                for m in MANDATORY {
                    files.entry(m).or_insert_with(|| "x\n".to_string());
                }
            } else if complete < 8 {
                // exactly one mandatory file missing
                for m in MANDATORY {
                    files.entry(m).or_insert_with(|| "x\n".to_string());
                }
                files.remove(&MANDATORY[(complete as usize) % 3]);
            }
            Dir { name, files }
        })
        .boxed()
}

fn case_strategy(tier: Tier) -> BoxedStrategy<Case> {
    let max = tier.pick(6, 8);
    let base = (
        // one tree in 250 (thorough: 60) is large (more entries than any internal batch size)
        prop_oneof![tier.pick(250, 60) => prop::collection::vec(dir(), 0..=max), 1 => prop::collection::vec(dir(), 130..300)],
        prop::collection::vec(prop::sample::select(vec!["pkgdb.byfile.db", "stray-1.0", "README", "+COMMENT", "foo-9.9"]).prop_map(String::from), 0..3),
    )
        .prop_map(|(dirs, stray_files)| {
            // distinct names by construction (in a large tree every name gets its index in front,
            // so that the tree really has that many entries)
            let mut dirs = dirs;
            if dirs.len() >= 100 {
                for (i, d) in dirs.iter_mut().enumerate() {
                    d.name = format!("n{}{}", i, d.name);
                }
            }
            let mut seen = std::collections::BTreeSet::new();
            let dirs: Vec<Dir> = dirs.into_iter().filter(|d| seen.insert(d.name.clone())).collect();
            let stray_files: Vec<String> = stray_files.into_iter().filter(|f| seen.insert(f.clone())).collect();
            Case { dirs, stray_files, raw_strays: vec![], raw_incomplete_dirs: vec![], open_spelling: 0 }
        })
        .boxed();
    let raw = || prop::collection::vec(prop::sample::select(vec![&b"\xff"[..], b"\x80-1.0", b"caf\xe9-2", b"\xc3(", b"x\xfe"]).prop_map(|b| B(b.to_vec())), 0..2);
    (base, prop::option::weighted(0.3, (raw(), raw())), prop_oneof![3 => Just(0u8), 2 => 1u8..6])
        .prop_map(|(mut c, r, spelling)| {
            c.open_spelling = spelling;
            if let Some((a, b)) = r {
                c.raw_strays = a;
                c.raw_incomplete_dirs = b.into_iter().filter(|x| !c.raw_strays.contains(x)).collect();
            }
            c
        })
        .boxed()
}

struct Cleanup(std::path::PathBuf);
impl Drop for Cleanup {
    fn drop(&mut self) {
        let _ = std::fs::remove_dir_all(&self.0);
    }
}

pub fn check(c: &Case, obs: &mut Obs) -> Result<(), String> {
    // domain: distinct plain names
    let mut names = std::collections::BTreeSet::new();
    for n in c.dirs.iter().map(|d| &d.name).chain(c.stray_files.iter()) {
        if n.is_empty() || n == "." || n == ".." || n.contains(['/', '\0']) || !names.insert(n.clone()) {
            obs.excluded = true;
            return Ok(());
        }
    }
    if c.dirs.iter().any(|d| d.files.keys().any(|k| *k >= 14)) {
        obs.excluded = true;
        return Ok(());
    }
    let root = Cleanup(scratch("c20").map_err(|e| e.to_string())?);
    for d in &c.dirs {
        let p = root.0.join(&d.name);
        std::fs::create_dir(&p).map_err(|e| format!("mkdir {:?}: {}", p, e))?;
        for (i, body) in &d.files {
            std::fs::write(p.join(FILES[*i]), body).map_err(|e| e.to_string())?;
        }
    }
    for f in &c.stray_files {
        std::fs::write(root.0.join(f), "stray").map_err(|e| e.to_string())?;
    }
    {
        use std::os::unix::ffi::OsStringExt;
        let ok = |b: &B| !b.0.is_empty() && !b.0.contains(&b'/') && !b.0.contains(&0) && b.0 != b"." && b.0 != b"..";
        for f in c.raw_strays.iter().filter(|b| ok(b)) {
            let _ = std::fs::write(root.0.join(std::ffi::OsString::from_vec(f.0.clone())), "stray");
        }
        for d in c.raw_incomplete_dirs.iter().filter(|b| ok(b)) {
            let p = root.0.join(std::ffi::OsString::from_vec(d.0.clone()));
            if std::fs::create_dir(&p).is_ok() {
                let _ = std::fs::write(p.join("+COMMENT"), "only a comment\n");
            }
        }
    }
    let want: BTreeMap<&str, &Dir> =
        c.dirs.iter().filter(|d| MANDATORY.iter().all(|m| d.files.contains_key(m))).map(|d| (d.name.as_str(), d)).collect();
    let spelled: std::path::PathBuf = {
        use std::os::unix::ffi::{OsStrExt, OsStringExt};
        let raw = root.0.as_os_str().as_bytes().to_vec();
        let (dir, last) = match raw.iter().rposition(|b| *b == b'/') {
            Some(i) => (raw[..i].to_vec(), raw[i + 1..].to_vec()),
            None => (b".".to_vec(), raw.clone()),
        };
        let bytes = match c.open_spelling % 6 {
            0 => raw,
            1 => [raw, b"/".to_vec()].concat(),
            2 => [raw, b"//".to_vec()].concat(),
            3 => [raw, b"/.".to_vec()].concat(),
            4 => [dir, b"/./".to_vec(), last].concat(),
            _ => [raw, b"/../".to_vec(), last].concat(),
        };
        std::ffi::OsString::from_vec(bytes).into()
    };
    if c.open_spelling % 6 != 0 {
        obs.class("database-path-spelled-differently");
    }
    let db = PkgDB::open(&spelled).map_err(|e| format!("PkgDB::open({:?}): {}", spelled, e))?;
    let mut seen: BTreeMap<String, u32> = BTreeMap::new();
    for item in db {
        let pkg = item.map_err(|e| format!("iteration error: {}", e))?;
        obs.verdicts += 1;
        *seen.entry(pkg.pkgname().clone()).or_insert(0) += 1;
        let Some(d) = want.get(pkg.pkgname().as_str()) else {
            return Err(format!(
                "iteration yields {:?}, which is not a directory holding +COMMENT, +CONTENTS and +DESC",
                pkg.pkgname()
            ));
        };
        let (base, version) = match d.name.rfind('-') {
            Some(i) => (&d.name[..i], &d.name[i + 1..]),
            None => (d.name.as_str(), ""),
        };
        if pkg.pkgbase() != base || pkg.pkgversion() != version {
            return Err(format!(
                "package {:?}: pkgbase {:?} / pkgversion {:?}, expected {:?} / {:?} (parts before / after the last '-')",
                d.name, pkg.pkgbase(), pkg.pkgversion(), base, version
            ));
        }
        for i in 0..14 {
            let got = pkg.read_metadata(entry(i));
            obs.verdicts += 1;
            match (d.files.get(&i), got) {
                (Some(body), Ok(g)) if *body == g => {}
                (None, Err(_)) => {}
                (w, g) => {
                    return Err(format!(
                        "package {:?}: read_metadata({}) = {:?}, the file holds {:?}",
                        d.name, FILES[i], g.map_err(|e| e.to_string()), w
                    ))
                }
            }
        }
    }
    for (n, k) in &seen {
        if *k != 1 {
            return Err(format!("package {:?} was yielded {} times", n, k));
        }
    }
    for n in want.keys() {
        if !seen.contains_key(*n) {
            return Err(format!("installed package {:?} was not yielded (yielded: {:?})", n, seen.keys().collect::<Vec<_>>()));
        }
    }
    // the same walk through the standard iterator adaptors (nth / skip / step_by / count / last):
    // each package still once, nothing that is not a package
    {
        let n = want.len();
        let open = || PkgDB::open(&spelled).map_err(|e| format!("PkgDB::open({:?}): {}", spelled, e));
        let names = |it: &mut dyn Iterator<Item = std::io::Result<pkgsrc::pkgdb::Package>>| -> Result<Vec<String>, String> {
            let mut v = vec![];
            for p in it {
                v.push(p.map_err(|e| format!("iteration error: {}", e))?.pkgname().clone());
            }
            Ok(v)
        };
        let k = c.dirs.len() % 4;
        let plain = names(&mut open()?)?;
        let skipped = names(&mut open()?.skip(k))?;
        obs.verdicts += 1;
        if skipped.len() != n.saturating_sub(k) || skipped.iter().any(|x| !want.contains_key(x.as_str())) {
            return Err(format!("iterating with skip({}) yields {:?}; a plain walk yields {:?}", k, skipped, plain));
        }
        let stepped = names(&mut open()?.step_by(2))?;
        if stepped.len() != (n + 1) / 2 || stepped.iter().any(|x| !want.contains_key(x.as_str())) {
            return Err(format!("iterating with step_by(2) yields {:?}; a plain walk yields {:?}", stepped, plain));
        }
        let mut it = open()?;
        let nth = it.nth(k);
        if nth.is_some() != (k < n) {
            return Err(format!("nth({}) is {} on a database of {} packages", k, if nth.is_some() { "Some" } else { "None" }, n));
        }
        if open()?.count() != n {
            return Err(format!("count() differs from the number of packages ({})", n));
        }
    }
    let incomplete = c.dirs.len() - want.len();
    obs.nontrivial = want.len() >= 2 && (incomplete >= 1 || !c.stray_files.is_empty());
    if incomplete >= 1 {
        obs.class("incomplete-directory");
    }
    if !c.stray_files.is_empty() {
        obs.class("stray-plain-files");
    }
    if c.dirs.is_empty() {
        obs.class("empty-database");
    }
    if want.keys().any(|n| !n.contains('-')) {
        obs.class("package-dir-without-dash");
    }
    if want.keys().any(|n| n.matches('-').count() >= 2) {
        obs.class("name-with-several-dashes");
    }
    Ok(())
}

// ------------------------------------------------------------------ file-name bijection

#[derive(Clone, Debug, Serialize, Deserialize)]
pub struct NameCase {
    pub name: String,
}

fn names(_t: Tier) -> Box<dyn Iterator<Item = NameCase>> {
    let mut v: Vec<String> = FILES.iter().map(|s| s.to_string()).collect();
    for f in FILES {
        v.push(f.to_lowercase());
        v.push(f[1..].to_string());
        v.push(format!("{} ", f));
        v.push(format!(" {}", f));
        v.push(format!("{}S", f));
        v.push(f[..f.len() - 1].to_string());
        v.push(f.replace('_', "-"));
        v.push(format!("+{}", f));
    }
    v.extend(["", "+", "+FOO", "+DESCR", "+SIZE", "+REQUIRED", "+BUILD", "COMMENT"].map(String::from));
    Box::new(v.into_iter().map(|name| NameCase { name }))
}

pub fn check_name(c: &NameCase, obs: &mut Obs) -> Result<(), String> {
    let want = FILES.iter().position(|f| *f == c.name);
    let got = MetadataEntry::from_filename(&c.name);
    obs.verdicts += 1;
    match (want, got) {
        (Some(i), Some(e)) => {
            if e != entry(i) || e.to_filename() != c.name {
                return Err(format!("from_filename({:?}) = {:?} whose file name is {:?}", c.name, e, e.to_filename()));
            }
            // distinctness of the 14 names
            for j in 0..14 {
                if j != i && entry(j).to_filename() == c.name {
                    return Err(format!("two entries share the file name {:?}", c.name));
                }
            }
            if MetadataEntry::from_filename(entry(i).to_filename()) != Some(entry(i)) {
                return Err(format!("from_filename(to_filename({:?})) is not the identity", entry(i)));
            }
            obs.class("one-of-the-14");
        }
        (None, None) => obs.class("other-string-rejected"),
        (w, g) => return Err(format!("from_filename({:?}) = {:?}, expected {:?}", c.name, g, w.map(|i| FILES[i]))),
    }
    obs.nontrivial = true;
    Ok(())
}

// ------------------------------------------------------------------ Metadata::is_valid

#[derive(Clone, Debug, Serialize, Deserialize)]
pub struct MetaCase {
    pub reads: Vec<(usize, String)>,
}

fn meta_strategy(_t: Tier) -> BoxedStrategy<MetaCase> {
    let body = prop::sample::select(vec!["", " ", "\n", "text", "  padded \n", "l1\nl2\n", "é", "42", "-7\n", " 9 "]).prop_map(String::from);
    let one = (0usize..14, body).prop_map(|(i, b)| {
        // +SIZE_ALL / +SIZE_PKG hold numbers
        if i >= 12 { (i, if b.trim().parse::<i64>().is_ok() { b } else { "100\n".to_string() }) } else { (i, b) }
    });
    (prop::collection::vec(one, 0..8), 0u8..4, any::<u16>())
        .prop_map(|(mut reads, seedk, pos)| {
            // half of the cases start from a complete triple so that both outcomes are common
            if seedk >= 2 {
                for i in MANDATORY {
                    let at = crate::engine::gen::idx(pos.wrapping_mul(i as u16 + 3), reads.len() + 1);
                    reads.insert(at, (i, ["text", " padded\n", "é"][i % 3].to_string()));
                }
            }
            MetaCase { reads }
        })
        .boxed()
}

pub fn check_meta(c: &MetaCase, obs: &mut Obs) -> Result<(), String> {
    let mut m = Metadata::new();
    let mut acc: BTreeMap<usize, String> = BTreeMap::new();
    for (i, body) in &c.reads {
        if *i >= 14 || (*i >= 12 && body.trim().parse::<i64>().is_err()) {
            obs.excluded = true;
            return Ok(());
        }
        m.read_metadata(entry(*i), body).map_err(|e| format!("read_metadata({}, {:?}) failed: {}", FILES[*i], body, e))?;
        // comment / contents / desc accumulate, everything else is replaced
        let t = body.trim().to_string();
        if MANDATORY.contains(i) {
            acc.entry(*i).or_default().push_str(&t);
        } else {
            acc.insert(*i, t);
        }
        // validity is asked after every read: the answer depends on the content now, not on
        // what was answered before
        let now = MANDATORY.iter().all(|k| acc.get(k).map(|s| !s.is_empty()).unwrap_or(false));
        obs.verdicts += 1;
        if m.is_valid().is_ok() != now {
            return Err(format!("after reading {} is_valid() = {:?}, expected valid = {} (reads so far: {:?})", FILES[*i], m.is_valid(), now, c.reads));
        }
    }
    let nonempty = |i: usize| acc.get(&i).map(|s| !s.is_empty()).unwrap_or(false);
    let want = nonempty(2) && nonempty(3) && nonempty(5);
    obs.verdicts += 1;
    if m.is_valid().is_ok() != want {
        return Err(format!(
            "is_valid() = {:?} with comment {:?}, contents {:?}, desc {:?}",
            m.is_valid(), m.comment(), m.contents(), m.desc()
        ));
    }
    let s = |i: usize| acc.get(&i).cloned().unwrap_or_default();
    if *m.comment() != s(2) || *m.contents() != s(3) || *m.desc() != s(5) {
        return Err(format!("getters return {:?} / {:?} / {:?}, read: {:?}", m.comment(), m.contents(), m.desc(), c.reads));
    }
    let opt = |i: usize| acc.get(&i).cloned();
    if *m.deinstall() != opt(4) || *m.display() != opt(6) || *m.install() != opt(7) {
        return Err("deinstall / display / install getters differ from what was read".into());
    }
    let lines = |i: usize| acc.get(&i).map(|s| s.lines().map(String::from).collect::<Vec<_>>());
    if *m.build_info() != lines(0) || *m.build_version() != lines(1) || *m.installed_info() != lines(8) || *m.mtree_dirs() != lines(9) || *m.preserve() != lines(10) || *m.required_by() != lines(11) {
        return Err("line-list getters differ from what was read".into());
    }
    let num = |i: usize| acc.get(&i).and_then(|s| s.parse::<i64>().ok());
    if *m.size_all() != num(12) || *m.size_pkg() != num(13) {
        return Err("size getters differ from what was read".into());
    }
    obs.nontrivial = [2usize, 3, 5].iter().filter(|i| acc.contains_key(i)).count() >= 2;
    obs.class(if want { "valid" } else { "invalid" });
    Ok(())
}

pub fn property() -> Property {
    Property {
        id: "C20",
        rule: "Directory trees in a scratch directory (created and removed by the case): 0-8 sub-directories named base-version (1-3 '-', nb revisions, empty version, non-ASCII, leading '-') or without any '-', each holding a generated subset of the 14 '+' files with generated content - 60% complete packages, 20% with exactly one of +COMMENT/+CONTENTS/+DESC missing, 20% arbitrary subsets -, plus 0-2 stray plain files. Oracle: the multiset of yielded pkgname() = the directories holding all three mandatory files, each once; pkgbase / pkgversion = the parts before / after the last '-'; read_metadata(e) = the bytes written to '+FILE' (error when absent) for all 14 entries. Enumerated stream: MetadataEntry <-> file name is a bijection over the 14 names, near misses (lower case, without '+', padded, truncated, extended) give None. Third stream: Metadata after generated read_metadata sequences - is_valid() is Ok iff comment, contents and desc are non-empty after trimming, getters return what was read. Non-trivial = >= 2 valid packages and >= 1 incomplete directory or stray file. Distinct = distinct trees. Generators also draw, at low weight, tokens from the source-literal dictionary (every string / byte / character literal of the library's own source, collected at build time and filtered by this domain's character class) (as directory names with version-like suffixes, and as file contents).",
        assumptions: vec![
            "directory and file names are valid UTF-8 and distinct",
            "+SIZE_ALL / +SIZE_PKG are read with numeric content only (other content is C17's subject)",
            "PkgDB::open on an unreadable directory is not explored (the sandbox runs as root)",
        ],
        streams: vec![
            random_stream("trees", "generated package database directories", case_strategy, |t| t.pick(3_000, 60_000), check),
            enumerated_stream("filenames", "the 14 '+' file names and their near misses", names, check_name),
            random_stream("metadata", "Metadata::read_metadata sequences and is_valid", meta_strategy, |t| t.pick(30_000, 3_000_000), check_meta),
        ],
        selfcheck: || Ok(()),
        hang_is_violation: false,
        min_nontrivial_share: 0.05,
        extra: None,
    }
}
