//! C10 — distinfo files round-trip byte-exactly, including non-UTF-8 names.

use crate::engine::*;
use crate::models::distinfo::{self as m, Doc, File, Kind};
use crate::models::hash::Alg;
use crate::props::distgen;
use pkgsrc::digest::Digest;
use pkgsrc::distinfo::{Checksum, Distinfo, Entry, EntryType};
use proptest::prelude::*;
use serde::{Deserialize, Serialize};
use std::ffi::OsString;
use std::os::unix::ffi::{OsStrExt, OsStringExt};
use std::path::PathBuf;

#[derive(Clone, Debug, Serialize, Deserialize)]
pub struct FileCase {
    pub name: B,
    pub checksums: Vec<(String, String)>,
    pub size: Option<u64>,
}

#[derive(Clone, Debug, Serialize, Deserialize)]
pub struct Case {
    pub rcsid: Option<B>,
    /// in file order; each is put in the section its name classifies into
    pub files: Vec<FileCase>,
    /// order in which the entries are inserted through the API (selectors)
    pub insert_order: Vec<u16>,
}

pub fn to_digest(a: Alg) -> Digest {
    match a {
        Alg::Blake2s => Digest::BLAKE2s,
        Alg::Md5 => Digest::MD5,
        Alg::Rmd160 => Digest::RMD160,
        Alg::Sha1 => Digest::SHA1,
        Alg::Sha256 => Digest::SHA256,
        Alg::Sha512 => Digest::SHA512,
    }
}

pub fn from_digest(d: &Digest) -> Alg {
    match d {
        Digest::BLAKE2s => Alg::Blake2s,
        Digest::MD5 => Alg::Md5,
        Digest::RMD160 => Alg::Rmd160,
        Digest::SHA1 => Alg::Sha1,
        Digest::SHA256 => Alg::Sha256,
        Digest::SHA512 => Alg::Sha512,
    }
}

fn case_from_doc(d: Doc, insert_order: Vec<u16>) -> Case {
    let conv = |f: &File| FileCase {
        name: B(f.name.clone()),
        checksums: f.checksums.iter().map(|(a, h)| (a.name().to_string(), h.clone())).collect(),
        size: f.size,
    };
    Case {
        rcsid: d.rcsid.map(B),
        files: d.distfiles.iter().chain(d.patchfiles.iter()).map(conv).collect(),
        insert_order,
    }
}

/// rebuild the model document from a case; None = outside the domain
pub fn doc_of(c: &Case) -> Option<Doc> {
    let mut d = Doc { rcsid: c.rcsid.as_ref().map(|b| b.0.clone()), ..Default::default() };
    if let Some(r) = &d.rcsid {
        if !r.starts_with(b"$NetBSD: ") || r.contains(&b'\n') {
            return None;
        }
    }
    let mut seen = std::collections::BTreeSet::new();
    for f in &c.files {
        let n = &f.name.0;
        if !m::name_in_domain(n) || !seen.insert(m::path_key(n)) || f.checksums.is_empty()
        {
            return None;
        }
        let mut cs = vec![];
        for (a, h) in &f.checksums {
            let alg = Alg::from_name_ci(a)?;
            if alg.name() != a || h.is_empty() || h.bytes().any(m::is_ws) {
                return None;
            }
            cs.push((alg, h.clone()));
        }
        match m::classify(n) {
            Kind::Distfile => d.distfiles.push(File { name: n.clone(), checksums: cs, size: f.size }),
            Kind::Patchfile => d.patchfiles.push(File { name: n.clone(), checksums: cs, size: None }),
        }
    }
    Some(d)
}

fn case_strategy(tier: Tier) -> BoxedStrategy<Case> {
    (distgen::doc(tier.pick(7, 9)), prop::collection::vec(any::<u16>(), 12))
        .prop_map(|(d, order)| case_from_doc(d, order))
        .boxed()
}

pub fn compare_entries(got: &[&Entry], want: &[File], kind: Kind, what: &str) -> Result<(), String> {
    if got.len() != want.len() {
        return Err(format!(
            "{}: {} entries, expected {} ({:?} vs {:?})",
            what,
            got.len(),
            want.len(),
            got.iter().map(|e| B(e.filename.as_os_str().as_bytes().to_vec())).collect::<Vec<_>>(),
            want.iter().map(|f| B(f.name.clone())).collect::<Vec<_>>()
        ));
    }
    for (g, w) in got.iter().zip(want.iter()) {
        let gname = g.filename.as_os_str().as_bytes();
        if gname != w.name.as_slice() {
            return Err(format!("{}: entry name {:?}, expected {:?}", what, B(gname.to_vec()), B(w.name.clone())));
        }
        let gcs: Vec<(Alg, String)> = g.checksums.iter().map(|c| (from_digest(&c.digest), c.hash.clone())).collect();
        if gcs != w.checksums {
            return Err(format!("{}: checksums of {:?} are {:?}, expected {:?}", what, B(w.name.clone()), gcs, w.checksums));
        }
        if g.size != w.size {
            return Err(format!("{}: size of {:?} is {:?}, expected {:?}", what, B(w.name.clone()), g.size, w.size));
        }
        let gk = match g.filetype {
            EntryType::Distfile => Kind::Distfile,
            EntryType::Patchfile => Kind::Patchfile,
        };
        if gk != kind {
            return Err(format!("{}: {:?} has type {:?}, expected {:?}", what, B(w.name.clone()), gk, kind));
        }
    }
    Ok(())
}

pub fn check(c: &Case, obs: &mut Obs) -> Result<(), String> {
    let Some(d) = doc_of(c) else {
        obs.excluded = true;
        return Ok(());
    };
    let file = m::print(&d);
    // (a) parse -> write is the identity on canonical files
    let parsed = Distinfo::from_bytes(&file);
    let out = parsed.as_bytes();
    obs.verdicts += 1;
    if out != file {
        return Err(format!(
            "parse -> write changed the file\n input: {:?}\noutput: {:?}",
            B(file.clone()),
            B(out)
        ));
    }
    // the parse itself agrees with the model (names, order, checksums, sizes)
    compare_entries(&parsed.distfiles(), &d.distfiles, Kind::Distfile, "parsed distfiles")?;
    compare_entries(&parsed.patchfiles(), &d.patchfiles, Kind::Patchfile, "parsed patchfiles")?;
    let want_rcs = d.rcsid.clone().map(OsString::from_vec);
    if parsed.rcsid() != want_rcs.as_ref() {
        return Err(format!("rcsid() = {:?}, expected {:?}", parsed.rcsid(), want_rcs));
    }
    // (b) API-assembled -> write -> parse
    let mut built = Distinfo::new();
    // writing is a pure function of the current content: intermediate writes (also before the
    // RCS Id is set) must not influence later ones
    let rcs_late = c.insert_order.first().map(|x| x % 2 == 1).unwrap_or(false);
    let _ = built.as_bytes();
    if !rcs_late {
        if let Some(r) = &want_rcs {
            built.set_rcsid(r);
        }
    }
    let all: Vec<&File> = d.distfiles.iter().chain(d.patchfiles.iter()).collect();
    // insertion order: a generated permutation; relative order inside each section must be the
    // file order for the written file to be canonical *for that order*, so we compare against
    // the model document rebuilt in insertion order
    let mut order: Vec<usize> = (0..all.len()).collect();
    for i in (1..order.len()).rev() {
        let j = crate::engine::gen::idx(c.insert_order[i % c.insert_order.len().max(1)], i + 1);
        order.swap(i, j);
    }
    let mut d2 = Doc { rcsid: d.rcsid.clone(), ..Default::default() };
    for k in &order {
        let f = all[*k];
        let entry = Entry::new(
            PathBuf::from(OsString::from_vec(f.name.clone())),
            PathBuf::from("/nonexistent"),
            f.checksums.iter().map(|(a, h)| Checksum::new(to_digest(*a), h.clone())).collect(),
            f.size,
        );
        if *k % 3 == 0 {
            let _ = built.as_bytes();
        }
        let fresh = built.insert(entry);
        if !fresh {
            return Err(format!("insert() reports {:?} as already present", B(f.name.clone())));
        }
        match m::classify(&f.name) {
            Kind::Distfile => d2.distfiles.push(f.clone()),
            Kind::Patchfile => d2.patchfiles.push(f.clone()),
        }
    }
    if rcs_late {
        let _ = built.as_bytes();
        if let Some(r) = &want_rcs {
            built.set_rcsid(r);
        }
    }
    let written = built.as_bytes();
    obs.verdicts += 1;
    if built.as_bytes() != written {
        return Err("two consecutive as_bytes() calls give different bytes".into());
    }
    let want_written = m::print(&d2);
    if written != want_written {
        return Err(format!(
            "Distinfo assembled through the API writes\n{:?}\nexpected canonical layout\n{:?}",
            B(written),
            B(want_written)
        ));
    }
    let back = Distinfo::from_bytes(&written);
    if back.rcsid() != built.rcsid() {
        return Err(format!("API -> write -> parse: rcsid {:?} became {:?}", built.rcsid(), back.rcsid()));
    }
    compare_entries(&back.distfiles(), &d2.distfiles, Kind::Distfile, "API -> write -> parse distfiles")?;
    compare_entries(&back.patchfiles(), &d2.patchfiles, Kind::Patchfile, "API -> write -> parse patchfiles")?;
    // Entry::as_bytes of each entry equals its slice of the file
    for (e, f) in built.distfiles().iter().zip(d2.distfiles.iter()) {
        if e.as_bytes() != m::print_file(f, true) {
            return Err(format!("Entry::as_bytes of {:?} = {:?}", B(f.name.clone()), B(e.as_bytes())));
        }
    }
    for (e, f) in built.patchfiles().iter().zip(d2.patchfiles.iter()) {
        if e.as_bytes() != m::print_file(f, false) {
            return Err(format!("Entry::as_bytes of {:?} = {:?}", B(f.name.clone()), B(e.as_bytes())));
        }
    }
    let high = all.iter().any(|f| f.name.iter().any(|b| *b >= 0x80));
    let sub = all.iter().any(|f| f.name.contains(&b'/'));
    obs.nontrivial = all.len() >= 2 && (high || sub);
    if high {
        obs.class("name-with-byte>=0x80");
    }
    if all.iter().any(|f| std::str::from_utf8(&f.name).is_err()) {
        obs.class("name-not-utf8");
    }
    if all.iter().any(|f| f.name.iter().any(|b| *b == 0x85 || *b == 0xa0)) {
        obs.class("name-with-0x85/0xA0");
    }
    if sub {
        obs.class("name-with-subdir");
    }
    if all.iter().any(|f| f.name.windows(2).any(|w| w == b"//") || f.name.ends_with(b"/") || f.name.starts_with(b"/") || f.name.windows(3).any(|w| w == b"/./")) {
        obs.class("name-with-doubled/leading/trailing-slash-or-dot-component");
    }
    if all.iter().any(|f| all.iter().any(|g| g.name != f.name && (g.name.starts_with(&f.name) || g.name.ends_with(&f.name)))) {
        obs.class("one-name-is-prefix/suffix-of-another");
    }
    if !d.patchfiles.is_empty() {
        obs.class("has-patches");
    }
    if d.rcsid.as_ref().map(|r| std::str::from_utf8(r).is_err()).unwrap_or(false) {
        obs.class("rcsid-not-utf8");
    }
    Ok(())
}

pub fn property() -> Property {
    Property {
        id: "C10",
        rule: "Canonical distinfo files: RCS line '$NetBSD$' or '$NetBSD: ' + arbitrary bytes without LF; blank line; 0-9 files with pairwise different names of 1-3 '/'-separated components of 1-12 bytes (no ASCII white space, no '.'/'..' components), weighted towards bytes >= 0x80 (C3 A0, C3 85, lone E9, A0, 85, FF), '( ) = # $ ~' and NUL; patch names patch-* / emul-<w>-patch-* and the exceptions (patch-local-*, *.orig, *.rej, *~, *.tar.*); each name goes to the section its classification says and classifies the same on its basename and as a whole. Per file 1-4 checksums (any of the six algorithms, repeats allowed; hex of the right length or an arbitrary non-blank token), distfiles with optional size from {0, 1, u64::MAX, random}. Oracle: (a) from_bytes(file).as_bytes() == file byte for byte and the parsed entries equal the model; (b) a Distinfo assembled through new/set_rcsid/insert(Entry::new) in a generated insertion order writes the canonical layout, and parsing that gives the same rcsid, names, checksum order, sizes and types; Entry::as_bytes equals the entry's slice. Non-trivial = >= 2 files and a name with a byte >= 0x80 or a sub-directory. Distinct = distinct cases. Generators also draw, at low weight, tokens from the source-literal dictionary (every string / byte / character literal of the library's own source, collected at build time and filtered by this domain's character class) (as name components); names may have a leading './', doubled / leading / trailing '/' or an interior '.' component; documents get names that are a prefix / suffix of another name ('.asc', '.sig', 'lib'+name, name minus a byte).",
        assumptions: vec![
            "names whose basename and whole name classify differently are outside the generated domain",
            "RCS Id through the API is unset or starts with '$NetBSD: '",
        ],
        streams: vec![random_stream("files", "canonical files, parse->write and API->write->parse", case_strategy, |t| t.pick(60_000, 4_000_000), check)],
        selfcheck: m::selfcheck,
        hang_is_violation: false,
        min_nontrivial_share: 0.05,
        extra: None,
    }
}
