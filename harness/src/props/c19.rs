//! C19 — PKGPATH accepts only category/package forms; both spellings give one value.

use crate::engine::*;
use crate::models::pkgpath as m;
use pkgsrc::{Depend, Pattern, PkgPath};
use proptest::prelude::*;
use serde::{Deserialize, Serialize};
use std::path::{Component, Path};

#[derive(Clone, Debug, Serialize, Deserialize)]
pub struct PathCase {
    pub path: String,
}

pub const SEGMENTS: [&str; 9] = ["", ".", "..", "a", "b", "foo", ".. ", "...", "a.b"];

fn enumerate(tier: Tier) -> Box<dyn Iterator<Item = PathCase>> {
    let max = tier.pick(4usize, 6usize);
    let mut out: Vec<PathCase> = vec![];
    let mut cur: Vec<Vec<usize>> = vec![vec![]];
    for _len in 0..=max {
        for seq in &cur {
            let body = seq.iter().map(|i| SEGMENTS[*i]).collect::<Vec<_>>().join("/");
            for lead in ["", "/"] {
                for trail in ["", "/"] {
                    out.push(PathCase { path: format!("{}{}{}", lead, body, trail) });
                }
            }
        }
        if _len == max {
            break;
        }
        let mut next = Vec::with_capacity(cur.len() * SEGMENTS.len());
        for seq in &cur {
            for i in 0..SEGMENTS.len() {
                let mut s = seq.clone();
                s.push(i);
                next.push(s);
            }
        }
        cur = next;
    }
    Box::new(out.into_iter())
}

pub fn random_paths(_t: Tier) -> BoxedStrategy<PathCase> {
    prop_oneof![
        3 => prop::collection::vec(prop_oneof![3 => prop::sample::select(SEGMENTS.to_vec()).prop_map(String::from), 1 => "[a-z.é ]{0,5}"], 0..7).prop_map(|v| v.join("/")),
        1 => "[a-b./]{0,12}",
        1 => prop::collection::vec(any::<char>(), 0..8).prop_map(|v| v.into_iter().collect::<String>()),
        // long names: category and package of chosen lengths, in either spelling
        2 => (
            crate::engine::gen::interesting_len(700),
            crate::engine::gen::interesting_len(700),
            prop::sample::select(vec!["", "", "../../", "../../", "../", "/", "./", "../../../"]),
            prop::sample::select(vec!["", "", "/", "//"]),
            prop::sample::select(vec!['a', 'p', 'é', '-', '.']),
        )
            .prop_map(|(l1, l2, lead, trail, ch)| format!("{}{}/{}{}", lead, "c".repeat(l1), ch.to_string().repeat(l2), trail)),
        // tokens of the library's own source as segments
        1 => prop::collection::vec(prop_oneof![2 => prop::sample::select(SEGMENTS.to_vec()).prop_map(String::from), 1 => crate::engine::dict::string_token(no_nul, "a")], 0..6).prop_map(|v| v.join("/")),
    ]
    .prop_map(|path| PathCase { path })
    .boxed()
}

fn no_nul(c: char) -> bool {
    c != '\0'
}

fn comps_eq(p: &Path, want: &[&str]) -> bool {
    let got: Vec<String> = p
        .components()
        .map(|c| match c {
            Component::Normal(s) => s.to_string_lossy().into_owned(),
            Component::ParentDir => "..".to_string(),
            Component::CurDir => ".".to_string(),
            Component::RootDir => "/".to_string(),
            Component::Prefix(_) => "<prefix>".to_string(),
        })
        .collect();
    got.iter().map(|s| s.as_str()).collect::<Vec<_>>() == want
}

pub fn check_path(c: &PathCase, obs: &mut Obs) -> Result<(), String> {
    let s = c.path.as_str();
    if s.contains('\0') {
        obs.excluded = true;
        return Ok(());
    }
    let want = m::parse(s);
    let got = PkgPath::new(s);
    obs.verdicts += 1;
    // the FromStr entry point is the same function
    {
        use std::str::FromStr;
        let via = PkgPath::from_str(s);
        if via.is_ok() != got.is_ok() || (via.is_ok() && via.as_ref().ok() != got.as_ref().ok()) {
            return Err(format!("PkgPath::from_str({:?}) = {:?} but PkgPath::new = {:?}", s, via, got));
        }
    }
    match (&got, &want) {
        (Err(_), None) => {
            obs.class("rejected");
        }
        (Ok(p), Some((cat, pkg))) => {
            obs.class("accepted");
            if !comps_eq(p.as_path(), &[cat, pkg]) {
                return Err(format!("PkgPath::new({:?}).as_path() = {:?}, expected {}/{}", s, p.as_path(), cat, pkg));
            }
            if !comps_eq(p.as_full_path(), &["..", "..", cat, pkg]) {
                return Err(format!("PkgPath::new({:?}).as_full_path() = {:?}, expected ../../{}/{}", s, p.as_full_path(), cat, pkg));
            }
            // both spellings give equal values
            let short = PkgPath::new(&format!("{}/{}", cat, pkg)).map_err(|e| format!("short spelling rejected: {}", e))?;
            let full = PkgPath::new(&format!("../../{}/{}", cat, pkg)).map_err(|e| format!("full spelling rejected: {}", e))?;
            if &short != p || &full != p || short != full {
                return Err(format!("PkgPath values built from {:?}, the short and the full spelling are not equal", s));
            }
            // right after an accepted input its invalid neighbours are still rejected (nothing is
            // remembered from the previous call)
            for bad in [format!("../{}", s), format!("../../x/{}/{}", cat, pkg), format!("{}/{}/{}", cat, cat, pkg), format!("../../../{}/{}", cat, pkg), format!("{}/{}/..", cat, pkg)] {
                if m::parse(&bad).is_none() && PkgPath::new(&bad).is_ok() {
                    return Err(format!("PkgPath::new({:?}) accepted right after {:?} was parsed", bad, s));
                }
            }
            // re-parsing either accessor's output gives an equal value
            for acc in [p.as_path(), p.as_full_path()] {
                let text = acc.to_str().ok_or("accessor output not UTF-8")?;
                match PkgPath::new(text) {
                    Ok(q) if &q == p => {}
                    other => return Err(format!("re-parsing accessor output {:?} gives {:?}", text, other)),
                }
            }
        }
        (Ok(p), None) => return Err(format!("PkgPath::new({:?}) accepted ({:?}); it is not category/package or ../../category/package", s, p.as_path())),
        (Err(_), Some((cat, pkg))) => return Err(format!("PkgPath::new({:?}) rejected; component-wise it is {}/{}", s, cat, pkg)),
    }
    let segs: Vec<&str> = s.split('/').collect();
    obs.nontrivial = segs.len() >= 3 && segs.iter().any(|x| x.is_empty() || *x == "." || *x == "..");
    Ok(())
}

// ------------------------------------------------------------------ Depend

#[derive(Clone, Debug, Serialize, Deserialize)]
pub struct DepCase {
    pub text: String,
}

const PATS: [&str; 26] = [
    "mutt-[0-9]*", "pkg>=1.0", "pkg>=1<2", "{a,b}-[0-9]*", "foo-1.0", "", "pkg>1>2", "foo-[0-9", "{a,b", "a}b{", "pkg<1<2<3", "***", "é>=1", "p5-*",
    // other glob dialects' syntax (POSIX classes, '^' negation, escapes): ordinary characters here
    "foo-[[:digit:]]*", "[:alpha:]", "foo-[^0-9]*", "foo\\:bar", "{a:b,c}-1", "foo-[0-9:]*",
    // the customary "any version" spellings
    "pkg>=0", "py311-setuptools>=0", "foo>=0.0", "foo>0", "foo-*", "foo-[0-9]*{,nb*}",
];
const PATHS: [&str; 12] = [
    "../../mail/mutt", "mail/mutt", "cat//pkg/", "", "mutt", "../mail/mutt", "/mail/mutt", "a/b/c", "./a/b", "../../a/b/", "../../../a/b", "a/./b",
];

fn dep_enumerate(_t: Tier) -> Box<dyn Iterator<Item = DepCase>> {
    let mut out = vec![];
    for p in PATS {
        out.push(DepCase { text: p.to_string() });
        for q in PATHS {
            out.push(DepCase { text: format!("{}:{}", p, q) });
            out.push(DepCase { text: format!("{}::{}", p, q) });
            out.push(DepCase { text: format!("{}:{}:", p, q) });
            out.push(DepCase { text: format!(":{}:{}", p, q) });
            out.push(DepCase { text: format!("{}:{}:{}", p, q, q) });
            out.push(DepCase { text: format!("{}:{}:{}:{}", p, p, q, q) });
        }
    }
    // paths from all segment sequences of length 0-6 over {'..', 'a', 'b', ''} behind three patterns
    const SEG: [&str; 4] = ["..", "a", "b", ""];
    let mut cur: Vec<String> = vec![String::new()];
    let mut all: Vec<String> = vec![String::new()];
    for _ in 0..6 {
        let mut next = vec![];
        for c in &cur {
            for s in SEG {
                next.push(if c.is_empty() && next.len() < 4 && cur.len() == 1 { s.to_string() } else { format!("{}/{}", c, s) });
            }
        }
        all.extend(next.iter().cloned());
        cur = next;
    }
    for path in all {
        for p in ["pkg-[0-9]*", "pkg>=1", "pkg>1>2"] {
            out.push(DepCase { text: format!("{}:{}", p, path) });
        }
    }
    Box::new(out.into_iter())
}

const DEP_ALPHABET: [char; 18] = [':', ':', '[', ']', 'a', 'b', 'z', '/', '.', '-', '*', '0', '9', '>', '=', '{', '}', ','];

/// random dependencies: a pattern half from the pools, from the brace grammar, over a small
/// alphabet of structural characters or from the library's own literals; 0-3 colons; a path half
/// from the pool or random
pub fn dep_random(t: Tier) -> BoxedStrategy<DepCase> {
    let half = || {
        prop_oneof![
            3 => prop::sample::select(PATS.to_vec()).prop_map(String::from),
            3 => crate::engine::gen::small_alphabet(&DEP_ALPHABET, 4, 12),
            // themed alphabets: bracket sets with colons, brace groups with colons, operators
            2 => prop_oneof![
                crate::engine::gen::small_alphabet(&['[', ':', ']', 'a'], 4, 10),
                crate::engine::gen::small_alphabet(&['{', ',', '}', 'a', ':'], 5, 10),
                crate::engine::gen::small_alphabet(&['>', '<', '=', '1', ':', 'p'], 6, 8),
            ],
            2 => crate::props::c04::pattern_strategy(2),
            1 => crate::engine::dict::string_token(no_nul, "a"),
            1 => (prop::sample::select(vec!["pkg-", "foo-[0-9]*", "p>=1", ""]), crate::engine::gen::small_alphabet(&DEP_ALPHABET, 3, 8)).prop_map(|(a, b)| format!("{}{}", a, b)),
        ]
    };
    let path = prop_oneof![4 => prop::sample::select(PATHS.to_vec()).prop_map(String::from), 2 => random_paths(t).prop_map(|p| p.path), 1 => crate::engine::gen::small_alphabet(&DEP_ALPHABET, 4, 10)];
    (half(), path, 0u8..14, half(), crate::engine::dict::string_token(no_nul, "x"))
        .prop_map(|(p, q, layout, extra, word)| {
            let text = match layout {
                0..=5 => format!("{}:{}", p, q),
                6 => format!("{}{}", p, q),
                7 => format!("{}::{}", p, q),
                8 => format!("{}:{}:", p, q),
                9 => format!(":{}:{}", p, q),
                10 => format!("{}:{}:{}", p, extra, q),
                11 => format!("{}:{}:{}", p, q, word.trim_start_matches(':')),
                12 => format!("{}:{}{}", p, q, if word.starts_with(':') { word.clone() } else { format!(":{}", word) }),
                _ => format!("{}{}:{}", p, extra, q),
            };
            DepCase { text }
        })
        .boxed()
}

pub fn check_dep(c: &DepCase, obs: &mut Obs) -> Result<(), String> {
    let s = c.text.as_str();
    if s.contains('\0') {
        obs.excluded = true;
        return Ok(());
    }
    let parts: Vec<&str> = s.split(':').collect();
    let got = Depend::new(s);
    obs.verdicts += 1;
    {
        use std::str::FromStr;
        let via = Depend::from_str(s);
        if via.is_ok() != got.is_ok() || (via.is_ok() && via.as_ref().ok() != got.as_ref().ok()) {
            return Err(format!("Depend::from_str({:?}) and Depend::new disagree", s));
        }
    }
    let expect = if parts.len() == 2 {
        match (Pattern::new(parts[0]), PkgPath::new(parts[1])) {
            (Ok(p), Ok(q)) => Some((p, q)),
            _ => None,
        }
    } else {
        None
    };
    match (&got, &expect) {
        (Ok(d), Some((p, q))) => {
            if d.pattern() != p || d.pkgpath() != q {
                return Err(format!("Depend::new({:?}) exposes parts different from parsing each half directly", s));
            }
            if d.pattern().pattern() != parts[0] {
                return Err(format!("Depend::new({:?}).pattern().pattern() = {:?}", s, d.pattern().pattern()));
            }
            obs.class("accepted");
        }
        (Err(_), None) => {
            obs.class(if parts.len() != 2 { "rejected:colon-count" } else { "rejected:invalid-half" });
        }
        (Ok(_), None) => return Err(format!("Depend::new({:?}) accepted; it has {} ':' and/or an invalid half", s, parts.len() - 1)),
        (Err(e), Some(_)) => return Err(format!("Depend::new({:?}) rejected ({}) although it is 'pattern:pkgpath' with both halves valid", s, e)),
    }
    obs.nontrivial = parts.len() >= 2;
    Ok(())
}

pub fn property() -> Property {
    Property {
        id: "C19",
        rule: "PkgPath: complete enumeration of all segment sequences of length 0-4 (thorough: 0-6) over {'', '.', '..', 'a', 'b', 'foo', '.. ', '...', 'a.b'}, each with and without a leading '/' and a trailing '/' (thorough: 4 x sum 9^k, k<=6 = 2.4 M strings), plus random strings. Oracle: M-path (split on '/', leading '/' rejected, empty and non-leading '.' segments dropped, accept exactly [N,N] or ['..','..',N,N] with ordinary N); for accepted inputs as_path() is component-equal to cat/pkg and as_full_path() to ../../cat/pkg, the values built from the short and the full spelling are ==, and re-parsing either accessor's output gives an equal value. Depend: complete product of 14 valid/invalid patterns x 12 valid/invalid paths x 7 colon layouts (0-3 colons): Ok iff exactly one ':' and Pattern::new(left) and PkgPath::new(right) are Ok, then pattern() / pkgpath() equal those. Non-trivial = >= 3 segments with an empty / '.' / '..' segment (Depend: >= 1 colon). Distinct = distinct strings. Generators also draw, at low weight, tokens from the source-literal dictionary (every string / byte / character literal of the library's own source, collected at build time and filtered by this domain's character class) (as segments and pattern halves); category / package of chosen lengths (0-700, powers of two and ten and the source's own numbers with neighbours) in both spellings. Stream depends-random: pattern half from the pools (incl. other dialects' syntax such as [[:digit:]], [^0-9], escaped ':'), the brace grammar, small themed alphabets of structural characters or the dictionary; 0-3 colons; path half from the pool, random, or a small alphabet.",
        assumptions: vec!["paths are compared component-wise (PathBuf semantics), NUL is not generated"],
        streams: vec![
            enumerated_stream("paths-enumerated", "all segment sequences with/without leading and trailing '/'", enumerate, check_path),
            random_stream("paths-random", "random path-like and arbitrary strings", random_paths, |t| t.pick(20_000, 3_000_000), check_path),
            enumerated_stream("depends", "patterns x paths x colon layouts", dep_enumerate, check_dep),
            random_stream("depends-random", "random pattern halves (pools, brace grammar, small alphabets of structural characters, the library's own literals) x 0-3 colons x path halves", dep_random, |t| t.pick(60_000, 4_000_000), check_dep), crate::fuzz::replay_stream()],
        selfcheck: m::selfcheck,
        hang_is_violation: false,
        min_nontrivial_share: 0.05,
        extra: Some(crate::fuzz::extra),
    }
}
