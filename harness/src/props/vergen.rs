//! Version-string generators shared by C01, C03, C06, C18 and the fuzz targets.

use crate::engine::gen::{apply_case, digits, idx};
use crate::models::dewey::cap_digit_runs;
use proptest::prelude::*;
use proptest::strategy::BoxedStrategy;

pub const MODIFIERS: [&str; 5] = ["alpha", "beta", "pre", "rc", "pl"];
pub const NEAR_MODIFIERS: [&str; 8] = ["alph", "bet", "pr", "r", "p", "n", "al", "b"];
/// characters the comparison must ignore (never `-` `<` `>` `{` `}`)
pub const JUNK: [&str; 13] =
    ["+", "~", ",", ":", "!", " ", "é", "Ａ", "１", "٣", "\u{212a}", "ſ", "*"];

/// one token of a version string, already rendered
pub fn token() -> BoxedStrategy<String> {
    prop_oneof![
        // numbers: small values dominate so that ties are frequent
        30 => (0u8..4).prop_map(|n| n.to_string()),
        6 => prop::sample::select(vec!["00", "01", "10", "9", "99", "100", "007"]).prop_map(String::from),
        6 => (1usize..=18, any::<u64>(), any::<u64>()).prop_map(|(l, a, b)| digits(l, a, b)),
        2 => prop::sample::select(vec!["4294967295", "4294967296", "2147483647", "2147483648", "65536", "20240101120000", "20230101120000", "999999999999999999", "100000000000000000", "9223372036854775807", "9223372036854775806", "1000000000000000000"]).prop_map(String::from),
        4 => crate::engine::gen::interesting_u64(i64::MAX as u64).prop_map(|n| n.to_string()),
        25 => prop::sample::select(vec![".", ".", ".", "_"]).prop_map(String::from),
        12 => (0usize..5, any::<u32>()).prop_map(|(i, m)| apply_case(MODIFIERS[i], if m % 3 == 0 { m } else { 0 })),
        10 => (0u8..26, any::<bool>()).prop_map(|(i, up)| {
            let c = (b'a' + i) as char;
            if up { c.to_ascii_uppercase().to_string() } else { c.to_string() }
        }),
        8 => (prop::option::of((0usize..=4, any::<u64>())), any::<u32>()).prop_map(|(d, m)| {
            let nb = apply_case("nb", if m % 4 == 0 { m >> 2 } else { 0 });
            match d {
                None => nb,
                Some((0, v)) => format!("{}{}", nb, v % 4),
                Some((l, v)) => format!("{}{}", nb, digits(l.min(18), v, v)),
            }
        }),
        5 => (0usize..JUNK.len()).prop_map(|i| JUNK[i].to_string()),
        3 => (0usize..NEAR_MODIFIERS.len()).prop_map(|i| NEAR_MODIFIERS[i].to_string()),
        // words that occur in real version strings (all of them are just letters to the rule)
        3 => (prop::sample::select(vec!["patch", "final", "dev", "git", "svn", "cvs", "snapshot", "release", "stable", "test", "post", "rev", "build", "update", "p", "r", "v", "jdk", "src", "bin", "alpha", "beta", "pre", "rc", "pl"]), any::<bool>())
            .prop_map(|(w, up)| if up { w.to_ascii_uppercase() } else { w.to_string() }),
        // tokens the library's own source spells out (see engine/dict.rs), upper or lower case
        3 => (crate::engine::dict::string_token(version_token_char, "a"), 0u8..4)
            .prop_map(|(w, m)| match m { 0 => w.to_ascii_uppercase(), 1 => w.to_ascii_lowercase(), _ => w }),
    ]
    .boxed()
}

/// characters a version token may consist of (never `-` `<` `>` `{` `}` `=` or a line break)
pub fn version_token_char(c: char) -> bool {
    c.is_alphanumeric() || ".+_~,:!*".contains(c)
}

pub fn tokens(max: usize) -> BoxedStrategy<Vec<String>> {
    prop::collection::vec(token(), 0..=max).boxed()
}

#[derive(Clone, Debug)]
pub enum Edit {
    AppendZero(u8),
    RemoveLast,
    Replace(u16, String),
    Insert(u16, String),
    Remove(u16),
    FlipCase(u16),
    BumpNb(u8),
    /// change the last digit of a numeric token (same length, neighbouring value)
    TweakNumber(u16, u8),
}

pub fn edit() -> BoxedStrategy<Edit> {
    prop_oneof![
        4 => (0u8..6).prop_map(Edit::AppendZero),
        2 => Just(Edit::RemoveLast),
        4 => (any::<u16>(), token()).prop_map(|(i, t)| Edit::Replace(i, t)),
        3 => (any::<u16>(), token()).prop_map(|(i, t)| Edit::Insert(i, t)),
        2 => any::<u16>().prop_map(Edit::Remove),
        2 => any::<u16>().prop_map(Edit::FlipCase),
        2 => (0u8..4).prop_map(Edit::BumpNb),
        3 => (any::<u16>(), 1u8..10).prop_map(|(i, d)| Edit::TweakNumber(i, d)),
    ]
    .boxed()
}

pub fn apply_edit(v: &mut Vec<String>, e: &Edit) {
    match e {
        Edit::AppendZero(k) => {
            let z = [".0", "pl", "_", ".", "0", "nb0"][*k as usize % 6];
            v.push(z.to_string());
        }
        Edit::RemoveLast => {
            v.pop();
        }
        Edit::Replace(i, t) => {
            if !v.is_empty() {
                let k = idx(*i, v.len());
                v[k] = t.clone();
            }
        }
        Edit::Insert(i, t) => {
            let k = idx(*i, v.len() + 1);
            v.insert(k, t.clone());
        }
        Edit::Remove(i) => {
            if !v.is_empty() {
                let k = idx(*i, v.len());
                v.remove(k);
            }
        }
        Edit::FlipCase(i) => {
            if !v.is_empty() {
                let k = idx(*i, v.len());
                v[k] = v[k]
                    .chars()
                    .map(|c| if c.is_ascii_lowercase() { c.to_ascii_uppercase() } else { c.to_ascii_lowercase() })
                    .collect();
            }
        }
        Edit::BumpNb(n) => v.push(format!("nb{}", n)),
        Edit::TweakNumber(i, d) => {
            let nums: Vec<usize> =
                v.iter().enumerate().filter(|(_, t)| !t.is_empty() && t.bytes().all(|b| b.is_ascii_digit())).map(|(k, _)| k).collect();
            if !nums.is_empty() {
                let k = nums[idx(*i, nums.len())];
                let mut bytes = v[k].clone().into_bytes();
                let last = bytes.len() - 1;
                bytes[last] = b'0' + ((bytes[last] - b'0') + *d) % 10;
                v[k] = String::from_utf8(bytes).unwrap();
            }
        }
    }
}

/// render tokens; digit runs are capped on the *rendered* string (adjacent numeric tokens
/// concatenate)
pub fn render(v: &[String], cap: usize) -> String {
    cap_digit_runs(&v.concat(), cap)
}

/// correlated pair (A, B): B is A after 0..=3 edits
pub fn pair(max_tokens: usize) -> BoxedStrategy<(String, String)> {
    // one pair in twenty is long (a shared prefix of dozens of components)
    let toks = prop_oneof![19 => tokens(max_tokens), 1 => prop::collection::vec(token(), 20..=70).boxed()];
    let short = (toks, prop::collection::vec(edit(), 0..=3)).prop_map(|(a, edits)| {
        let mut b = a.clone();
        for e in &edits {
            apply_edit(&mut b, e);
        }
        (render(&a, 18), render(&b, 18))
    });
    // one pair in sixty shares a prefix of very many components (a chosen count) and differs
    // only behind it
    let long = (crate::engine::gen::interesting_len(1300), prop::sample::select(vec!["1.", "0.", "a", "1_", "1a", "rc1."]), tokens(3), tokens(3))
        .prop_map(|(n, unit, a, b)| (render(&[vec![unit.repeat(n)], a].concat(), 18), render(&[vec![unit.repeat(n)], b].concat(), 18)));
    prop_oneof![59 => short, 1 => long].boxed()
}
