//! C15 — PLIST queries agree with each other and with the entry sequence.

use crate::engine::*;
use crate::models::plist as m;
use pkgsrc::plist::{Plist, PlistEntry, PlistOption};
use proptest::prelude::*;
use serde::{Deserialize, Serialize};
use std::ffi::OsString;
use std::os::unix::ffi::{OsStrExt, OsStringExt};

#[derive(Clone, Debug, Serialize, Deserialize)]
pub struct Case {
    /// one PLIST line per entry (valid by construction)
    pub lines: Vec<B>,
}

fn path_arg() -> BoxedStrategy<Vec<u8>> {
    prop_oneof![
        5 => prop::sample::select(vec![&b"/usr/pkg"[..], b"/usr/pkg/", b"/", b"/opt/x//", b"rel/dir", b"/caf\xe9", b"/\xc3\xa9/", b"/a b", b"."]).prop_map(|s| s.to_vec()),
        1 => prop::collection::vec(prop_oneof![3 => 0x21u8..0x7f, 1 => 0x80u8..=0xff], 1..8),
        // tokens of the library's own source and short strings of path punctuation
        1 => crate::engine::dict::byte_token(arg_byte, b"a"),
        1 => crate::engine::gen::small_alphabet(&['/', '.', 'a', ' ', '-', '~'], 3, 5).prop_filter("non-empty", |s| !s.trim().is_empty()).prop_map(|s| s.into_bytes()),
    ]
    .boxed()
}

fn arg_byte(b: u8) -> bool {
    b != b'\n' && b != b'\r'
}

fn file_name() -> BoxedStrategy<Vec<u8>> {
    prop_oneof![
        6 => prop::sample::select(vec![&b"bin/foo"[..], b"man/man1/foo.1", b"a", b"b", b"share/doc/x y", b"lib/libfoo.so", b"f\xe9", b"+INSTALL", b"/abs/file"]).prop_map(|s| s.to_vec()),
        1 => prop::collection::vec(prop_oneof![3 => 0x21u8..0x7f, 1 => 0x80u8..=0xff], 1..8).prop_map(|mut v| { if v[0] == b'@' { v[0] = b'x'; } v }),
        1 => crate::engine::dict::byte_token(arg_byte, b"a").prop_map(|mut v| { if v[0] == b'@' { v[0] = b'x'; } v }),
    ]
    .boxed()
}

fn entry_line() -> BoxedStrategy<Vec<u8>> {
    let with = |cmd: &'static str, arg: BoxedStrategy<Vec<u8>>| -> BoxedStrategy<Vec<u8>> {
        arg.prop_map(move |a| [cmd.as_bytes().to_vec(), b" ".to_vec(), a].concat()).boxed()
    };
    let text = || prop::sample::select(vec!["pkg-1.0", "foo>=1", "bar-[0-9]*", "0644", "root", "wheel", "é"]).prop_map(|s| s.as_bytes().to_vec()).boxed();
    prop_oneof![
        30 => file_name(),
        10 => Just(b"@ignore".to_vec()),
        3 => prop::sample::select(vec![&b"@ignore "[..], b"@ignore  ", b"@ignore \t", b"@ignore\t"]).prop_map(|s| s.to_vec()),
        10 => with("@cwd", path_arg()),
        2 => with("@src", path_arg()),
        2 => with("@cd", path_arg()),
        4 => with("@exec", path_arg()),
        4 => with("@unexec", path_arg()),
        3 => prop_oneof![Just(b"@mode".to_vec()), with("@mode", text())],
        2 => prop_oneof![Just(b"@owner".to_vec()), with("@owner", text())],
        2 => prop_oneof![Just(b"@group".to_vec()), with("@group", text())],
        3 => prop_oneof![Just(b"@comment".to_vec()), with("@comment", path_arg())],
        3 => with("@name", text()),
        4 => with("@pkgdir", path_arg()),
        4 => with("@dirrm", path_arg()),
        3 => with("@display", path_arg()),
        3 => with("@pkgdep", text()),
        3 => with("@blddep", text()),
        3 => with("@pkgcfl", text()),
        2 => Just(b"@option preserve".to_vec()),
    ]
    .prop_map(crate::props::c14::sanitise)
    .boxed()
}

fn non_file_line() -> BoxedStrategy<Vec<u8>> {
    prop::sample::select(vec![
        "@mode 0644", "@owner root", "@group wheel", "@comment x", "@pkgdir share/x", "@exec true", "@unexec true", "@dirrm share/x",
        "@cwd /usr/pkg", "@mode", "@display MSG", "@pkgdep a>=1",
    ])
    .prop_map(|s| s.as_bytes().to_vec())
    .boxed()
}

fn case_strategy(tier: Tier) -> BoxedStrategy<Case> {
    let max = tier.pick(30, 40);
    prop_oneof![
        40 => prop::collection::vec(entry_line(), 0..=max),
        // an @ignore separated from its file by a long run of other commands
        2 => (prop::collection::vec(entry_line(), 0..6), prop::collection::vec(non_file_line(), 20..70), prop::collection::vec(entry_line(), 1..8))
            .prop_map(|(a, run, b)| {
                let mut v = a;
                v.push(b"@ignore".to_vec());
                v.extend(run);
                v.push(b"bin/after-the-run".to_vec());
                v.extend(b);
                v
            }),
        // long lists
        1 => prop::collection::vec(entry_line(), 100..300),
    ]
    .prop_map(|ls| Case { lines: ls.into_iter().map(B).collect() })
    .boxed()
}

fn os(b: &[u8]) -> OsString {
    OsString::from_vec(b.to_vec())
}

pub fn check(c: &Case, obs: &mut Obs) -> Result<(), String> {
    // the text <-> sequence correspondence is C14's business; here every line must be a valid entry
    let mut entries: Vec<PlistEntry> = vec![];
    for l in &c.lines {
        if l.0.contains(&b'\n') || m::is_blank(&l.0) || l.0.iter().all(|b| m::is_ascii_ws(*b) || m::is_ambiguous_ws(*b)) {
            obs.excluded = true;
            return Ok(());
        }
        match m::parse_line(&l.0) {
            Ok(e) => entries.push(e),
            Err(_) => {
                obs.excluded = true;
                return Ok(());
            }
        }
    }
    let doc: Vec<u8> = c.lines.iter().map(|l| l.0.clone()).collect::<Vec<_>>().join(&b"\n"[..]);
    let p = Plist::from_bytes(&doc).map_err(|e| format!("valid document rejected: {}", e))?;

    macro_rules! cmp {
        ($name:expr, $got:expr, $want:expr) => {
            obs.verdicts += 1;
            if $got != $want {
                return Err(format!("{}: got {:?}, the entry sequence gives {:?}\ninput: {:?}", $name, $got, $want, B(doc.clone())));
            }
        };
    }
    let want_files = m::files(&entries);
    let got_files: Vec<OsString> = p.files().into_iter().map(|f| f.to_os_string()).collect();
    cmp!("files()", got_files, want_files);
    let want_pref = m::files_prefixed(&entries);
    cmp!("files_prefixed()", p.files_prefixed(), want_pref);
    let want_inst: Vec<&PlistEntry> = m::cmd_indices(&entries, false).into_iter().map(|i| &entries[i]).collect();
    cmp!("install_cmds()", p.install_cmds(), want_inst);
    let want_un: Vec<&PlistEntry> = m::cmd_indices(&entries, true).into_iter().map(|i| &entries[i]).collect();
    cmp!("uninstall_cmds()", p.uninstall_cmds(), want_un);

    let strs = |f: fn(&PlistEntry) -> Option<&str>| -> Vec<String> { entries.iter().filter_map(f).map(String::from).collect() };
    let got_s = |v: Vec<&str>| -> Vec<String> { v.into_iter().map(String::from).collect() };
    cmp!("depends()", got_s(p.depends()), strs(|e| if let PlistEntry::PkgDep(s) = e { Some(s) } else { None }));
    cmp!("build_depends()", got_s(p.build_depends()), strs(|e| if let PlistEntry::BldDep(s) = e { Some(s) } else { None }));
    cmp!("conflicts()", got_s(p.conflicts()), strs(|e| if let PlistEntry::PkgCfl(s) = e { Some(s) } else { None }));
    let oss = |f: fn(&PlistEntry) -> Option<&OsString>| -> Vec<OsString> { entries.iter().filter_map(f).cloned().collect() };
    let got_o = |v: Vec<&std::ffi::OsStr>| -> Vec<OsString> { v.into_iter().map(|s| s.to_os_string()).collect() };
    cmp!("pkgdirs()", got_o(p.pkgdirs()), oss(|e| if let PlistEntry::PkgDir(s) = e { Some(s) } else { None }));
    cmp!("pkgrmdirs()", got_o(p.pkgrmdirs()), oss(|e| if let PlistEntry::DirRm(s) = e { Some(s) } else { None }));
    let want_name = entries.iter().find_map(|e| if let PlistEntry::Name(s) = e { Some(s.clone()) } else { None });
    cmp!("pkgname()", p.pkgname().map(String::from), want_name);
    let want_disp = entries.iter().find_map(|e| if let PlistEntry::Display(s) = e { Some(s.clone()) } else { None });
    cmp!("display()", p.display().map(|s| s.to_os_string()), want_disp);
    let want_pres = entries.iter().any(|e| matches!(e, PlistEntry::PkgOpt(PlistOption::Preserve)));
    cmp!("is_preserve()", p.is_preserve(), want_pres);

    // asking again, in another order, gives the same answers (a view keeps no state)
    let again_un: Vec<&PlistEntry> = p.uninstall_cmds();
    let again_in: Vec<&PlistEntry> = p.install_cmds();
    let again_files: Vec<OsString> = p.files().into_iter().map(|f| f.to_os_string()).collect();
    obs.verdicts += 1;
    if again_in != m::cmd_indices(&entries, false).into_iter().map(|i| &entries[i]).collect::<Vec<_>>()
        || again_un != m::cmd_indices(&entries, true).into_iter().map(|i| &entries[i]).collect::<Vec<_>>()
        || again_files != m::files(&entries)
        || p.files_prefixed() != m::files_prefixed(&entries)
    {
        return Err(format!("a second round of view calls on the same Plist gives different answers\ninput: {:?}", B(doc.clone())));
    }
    // metamorphic cross-check between the four file views
    let inst_files: Vec<OsString> = p.install_cmds().into_iter().filter_map(|e| if let PlistEntry::File(f) = e { Some(f.clone()) } else { None }).collect();
    let un_files: Vec<OsString> = p.uninstall_cmds().into_iter().filter_map(|e| if let PlistEntry::File(f) = e { Some(f.clone()) } else { None }).collect();
    if inst_files != got_files || un_files != got_files {
        return Err(format!("the file entries of install_cmds / uninstall_cmds / files() differ: {:?} / {:?} / {:?}", inst_files, un_files, got_files));
    }
    let pref = p.files_prefixed();
    if pref.len() != got_files.len() || pref.iter().zip(got_files.iter()).any(|(a, b)| !a.as_bytes().ends_with(b.as_bytes())) {
        return Err(format!("files_prefixed() {:?} are not the files() {:?} with a prefix", pref, got_files));
    }

    // classification
    let mut consecutive = false;
    let mut trailing = false;
    let mut separated = false;
    for (i, e) in entries.iter().enumerate() {
        if *e == PlistEntry::Ignore {
            match entries.get(i + 1) {
                Some(PlistEntry::Ignore) => consecutive = true,
                Some(PlistEntry::File(_)) => {}
                Some(_) => {
                    if entries[i + 1..].iter().any(|x| matches!(x, PlistEntry::File(_))) {
                        separated = true
                    } else {
                        trailing = true
                    }
                }
                None => trailing = true,
            }
        }
    }
    let cwds = entries.iter().filter(|e| matches!(e, PlistEntry::Cwd(_))).count();
    obs.nontrivial = (consecutive || trailing || separated) && cwds >= 1;
    if consecutive {
        obs.class("consecutive-@ignore");
    }
    if trailing {
        obs.class("trailing-@ignore");
    }
    if separated {
        obs.class("@ignore-separated-from-its-file");
    }
    if cwds >= 2 {
        obs.class("several-@cwd");
    }
    if matches!(entries.iter().find(|e| matches!(e, PlistEntry::File(_) | PlistEntry::Cwd(_))), Some(PlistEntry::File(_))) {
        obs.class("file-before-first-@cwd");
    }
    let _ = os;
    Ok(())
}

pub fn property() -> Property {
    Property {
        id: "C15",
        rule: "Entry sequences of length 0-40 from all 18 command kinds, weighted towards files, '@ignore' (consecutive, trailing, separated from the next file by other commands) and '@cwd' / '@src' / '@cd' (absolute, trailing '/', '/', doubled slashes, relative, non-UTF-8, none before the first file), rendered one per line and parsed (C14 covers text <-> sequence). Oracle: the twelve views computed by M-plist from the sequence - files (minus every file with an @ignore between it and the preceding file), files_prefixed (most recent @cwd + '/' unless it ends in one), install_cmds / uninstall_cmds (entry by entry with ==), depends, build_depends, conflicts, pkgdirs, pkgrmdirs, pkgname, display, is_preserve - plus the cross-check that the file entries of install_cmds, uninstall_cmds, files() and the tails of files_prefixed() are one list. Non-trivial = at least one @ignore that is consecutive / trailing / separated from its file, and at least one @cwd. Distinct = distinct sequences. Generators also draw, at low weight, tokens from the source-literal dictionary (every string / byte / character literal of the library's own source, collected at build time and filtered by this domain's character class); directory arguments over small alphabets of path punctuation ('/', '.', ' ', '-', '~').",
        assumptions: vec!["every generated line is a valid entry under M-plist (invalid or ambiguous lines are excluded, C14 covers them)"],
        streams: vec![random_stream("sequences", "generated entry sequences, all views", case_strategy, |t| t.pick(100_000, 6_000_000), check)],
        selfcheck: m::selfcheck,
        hang_is_violation: false,
        min_nontrivial_share: 0.05,
        extra: None,
    }
}
