//! C07 — pkg_summary entries round-trip, and printing is independent of the call history.

use crate::engine::*;
use crate::models::summary::{self as m, Call, Val, VARS};
use crate::props::{sumapi, sumgen};
use pkgsrc::summary::Summary;
use proptest::prelude::*;
use serde::{Deserialize, Serialize};
use std::str::FromStr;

#[derive(Clone, Debug, Serialize, Deserialize)]
pub struct Case {
    pub h1: Vec<Call>,
    pub h2: Vec<Call>,
}

fn case_strategy(_t: Tier) -> BoxedStrategy<Case> {
    sumgen::assignment(sumgen::text)
        .prop_flat_map(|a| (sumgen::history(a.clone()), sumgen::history(a)))
        .prop_map(|(h1, h2)| Case { h1, h2 })
        .boxed()
}

fn awkward(v: &Val) -> bool {
    let s = |x: &String| x.is_empty() || x.contains('=') || !x.is_ascii();
    match v {
        Val::S(x) => s(x),
        Val::I(n) => *n < 0 || *n == i64::MAX,
        Val::L(l) => l.iter().any(s),
    }
}

fn in_domain(h: &[Call]) -> bool {
    h.iter().all(|c| {
        sumapi::well_typed(c)
            && match c {
                Call::Set(_, Val::S(s)) | Call::Push(_, s) => !s.contains(['\r', '\n']),
                // (a list may be emptied in between; only the final values must be non-empty)
                Call::Set(_, Val::L(l)) => l.iter().all(|s| !s.contains(['\r', '\n'])),
                _ => true,
            }
    })
}

pub fn check(c: &Case, obs: &mut Obs) -> Result<(), String> {
    if !in_domain(&c.h1) || !in_domain(&c.h2) {
        obs.excluded = true;
        return Ok(());
    }
    let a = m::apply(&c.h1);
    if m::apply(&c.h2) != a || m::required().iter().any(|i| !a.contains_key(i)) || a.values().any(|v| matches!(v, Val::L(l) if l.is_empty())) {
        // the two histories must realise the same complete assignment
        obs.excluded = true;
        return Ok(());
    }
    let want = m::print(&a);
    let mut printed = vec![];
    for (k, h) in [&c.h1, &c.h2].iter().enumerate() {
        let mut s = Summary::new();
        // queries interleaved with the calls must not disturb anything, and must themselves be
        // answered from the values set so far (no memoised answers); a clone taken half-way is
        // an independent value
        let mut so_far = m::Assignment::new();
        let mut snapshot: Option<(Summary, m::Assignment)> = None;
        for (j, call) in h.iter().enumerate() {
            sumapi::apply(&mut s, std::slice::from_ref(call))?;
            so_far = m::apply(&h[..=j]);
            let complete = m::required().iter().all(|i| so_far.contains_key(i));
            obs.verdicts += 1;
            if s.is_completed() != complete {
                return Err(format!(
                    "history {}: after call #{} is_completed() = {}, but the required variables set so far say {}",
                    k + 1, j, s.is_completed(), complete
                ));
            }
            if j % 5 == 2 {
                let shown = s.to_string();
                if shown != m::print(&so_far) {
                    return Err(format!("history {}: after call #{} the entry prints\n{}\nbut the values set so far print as\n{}", k + 1, j, shown, m::print(&so_far)));
                }
            }
            if j == h.len() / 2 {
                snapshot = Some((s.clone(), so_far.clone()));
            }
        }
        let _ = &so_far;
        let out = s.to_string();
        if let Some((snap, snap_model)) = &snapshot {
            // print the clone after the original has moved on and been printed
            let shown = snap.to_string();
            obs.verdicts += 1;
            if shown != m::print(snap_model) {
                return Err(format!(
                    "history {}: a clone taken after call #{} prints\n{}\nbut it held\n{}\n(the original was modified afterwards)",
                    k + 1, h.len() / 2, shown, m::print(snap_model)
                ));
            }
            sumapi::compare(snap, snap_model, "clone taken half-way")?;
            if s.to_string() != out {
                return Err(format!("history {}: printing twice gives different text", k + 1));
            }
        }
        obs.verdicts += 1;
        if out != want {
            return Err(format!(
                "history {} prints\n{}\nbut the final values print as\n{}",
                k + 1,
                out,
                want
            ));
        }
        sumapi::compare(&s, &a, "after the call history")?;
        if !s.is_completed() {
            return Err("is_completed() is false although all required variables are set".into());
        }
        printed.push(out);
    }
    // generate -> parse
    let parsed = Summary::from_str(&want).map_err(|e| format!("printed entry does not parse back: {:?}\n{}", e, want))?;
    obs.verdicts += 1;
    sumapi::compare(&parsed, &a, "after print -> parse")?;
    // canonical parse -> generate
    let again = parsed.to_string();
    obs.verdicts += 1;
    if again != want {
        return Err(format!("parse -> print is not byte-identical:\n{}\nvs\n{}", again, want));
    }
    let optional = a.keys().filter(|i| !VARS[**i].2).count();
    let multi = a.values().any(|v| matches!(v, Val::L(l) if l.len() >= 2));
    let awk = a.values().any(awkward);
    obs.nontrivial = optional >= 3 && multi && awk;
    if c.h1.iter().chain(c.h2.iter()).any(|c| matches!(c, Call::Push(..))) {
        obs.class("history-with-push");
    }
    if c.h1.len() > a.len() || c.h2.len() > a.len() {
        obs.class("history-with-overwrites");
    }
    if awk {
        obs.class("awkward-value");
    }
    if multi {
        obs.class("multi-line-list");
    }
    Ok(())
}

pub fn property() -> Property {
    Property {
        id: "C07",
        rule: "An assignment = all 11 required variables plus a random subset of the 12 optional ones; scalar values are text without CR/LF (incl. empty, '=', 'a=b=c', leading/trailing blanks, tabs, non-ASCII, NUL, U+2028), integers from {0, +-1, i64::MIN, i64::MAX, random}, lists of 1-4 lines. Two independent call histories realise it: per variable 0-2 junk set_* calls, then set_*(final) | set_*(prefix)+push_* for the rest | pushes only; the runs of different variables are interleaved randomly. Queries are interleaved with the calls: is_completed() after every call, Display after every fifth, and a clone taken half-way is printed and read after the original has moved on. One value in ~25 is long (100-700 characters, lists of 20-90 lines). Oracle: (a) both histories print identically and equal M-summary.print(assignment) (fixed order, one line per value) and all 23 getters + description_as_str equal the assignment, is_completed() holds; (b) Summary::from_str(printed) is Ok with the same getters; (c) printing the parsed entry is byte-identical. Non-trivial = >= 3 optional variables set, >= 1 list of >= 2 lines and >= 1 awkward value (empty, contains '=', non-ASCII, negative or extreme integer). Distinct = distinct cases. Generators also draw, at low weight, tokens from the source-literal dictionary (every string / byte / character literal of the library's own source, collected at build time and filtered by this domain's character class) (values; FILE_NAME is PKGNAME + '.tgz' or PKGNAME in half of the entries that set it; values with U+FEFF, backslash escapes, quotes).",
        assumptions: vec!["values contain no CR/LF and lists are non-empty (domain of the property)"],
        streams: vec![random_stream(
            "histories",
            "assignment realised by two interleaved set/push histories, print/parse round trips",
            case_strategy,
            |t| t.pick(20_000, 2_000_000),
            check,
        )],
        selfcheck: m::selfcheck,
        hang_is_violation: false,
        min_nontrivial_share: 0.05,
        extra: None,
    }
}
