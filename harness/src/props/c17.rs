//! C17 — no input makes a parser or matcher panic or hang.

use crate::engine::gen::idx;
use crate::engine::*;
use crate::models::summary as ms;
use crate::props::{c04, c14, c16, distgen, sumgen, vergen};
use crate::targets;
use proptest::prelude::*;
use serde::{Deserialize, Serialize};

#[derive(Clone, Debug, Serialize, Deserialize)]
pub struct Case {
    pub target: String,
    pub data: B,
    /// how the input was produced: arbitrary | grammar | mutated | seed
    pub source: String,
}

pub const SEED_PKGDEPS: &str = include_str!("../../seeds/pkgdeps.txt");
pub const SEED_PKGNAMES: &str = include_str!("../../seeds/pkgnames.txt");
pub const SEED_PBULK: &str = include_str!("../../seeds/pbulk-index.txt");
pub const SEED_DISTINFO: [&str; 3] = [
    include_str!("../../seeds/distinfo"),
    include_str!("../../seeds/distinfo.bad"),
    include_str!("../../seeds/distinfo.subdir"),
];
pub const SEED_PATCH: &str = include_str!("../../seeds/patch-Makefile");
pub const SEED_SUMMARY: &str = "BUILD_DATE=2019-08-12 15:58:02 +0100\nCATEGORIES=devel pkgtools\nCOMMENT=This is a test\nCONFLICTS=cfl-pkg1-[0-9]*\nDEPENDS=dep-pkg1-[0-9]*\nDEPENDS=dep-pkg2>=2.0\nDESCRIPTION=A test description\nDESCRIPTION=\nDESCRIPTION=This is a multi-line variable\nFILE_SIZE=1234\nHOMEPAGE=https://example.org/\nLICENSE=isc\nMACHINE_ARCH=x86_64\nOPSYS=Darwin\nOS_VERSION=18.7.0\nPKGNAME=testpkg-1.0\nPKGPATH=pkgtools/testpkg\nPKGTOOLS_VERSION=20091115\nSIZE_PKG=4321\n";
pub const SEED_PLIST: &str = "@comment $NetBSD$\n@name pkgtest-1.0\n@pkgdep dep-pkg1-[0-9]*\n@blddep dep-pkg1-1.0nb2\n@pkgcfl cfl-pkg1<2.0\n@display MESSAGE\n@cwd /opt/pkg\n@comment bin/foo installed with specific permissions\n@mode 0644\n@owner root\n@group wheel\nbin/foo\n@mode\n@owner\n@group\n@exec echo \"I just installed F=%F D=%D B=%B f=%f\"\n@unexec echo \"I just deleted F=%F D=%D B=%B f=%f\"\nbin/bar\n@ignore\n+BUILD_INFO\n@pkgdir /opt/pkg/share/bar\n@dirrm /opt/pkg/share/foo\n@option preserve\n";

fn seed_line(text: &'static str) -> BoxedStrategy<String> {
    let lines: Vec<&'static str> = text.lines().collect();
    (0usize..lines.len()).prop_map(move |i| lines[i].to_string()).boxed()
}

/// a package name with characters whose lower / upper case form has a different UTF-8 length
/// (or is several characters) directly in front of, inside or behind the markers a parser looks
/// for ('-', "nb", operators): an offset computed in a case-mapped copy does not fit the original
fn case_fold_name() -> BoxedStrategy<String> {
    let fold = || prop::sample::select(vec!["\u{130}", "\u{212a}", "\u{1e9e}", "\u{df}", "\u{17f}", "\u{149}", "\u{23a}", "\u{23e}", "\u{1f0}", "\u{fb01}", "\u{2126}", "\u{390}", "\u{e9}", "\u{ff21}"]);
    (
        prop::sample::select(vec!["pkg-", "pkg-1.0", "p", "pkg>=1.0", "a-b-2", "pkg-1.0nb1", ""]),
        prop::collection::vec(fold(), 1..4),
        prop::sample::select(vec!["nb", "nb3", "NB1", "nbx", "", "-1.0nb1", ">=1nb2", "rc1", "alpha", ".1", "-[0-9]*", "{,nb1}"]),
        prop::option::weighted(0.3, fold()),
    )
        .prop_map(|(a, mid, b, tail)| format!("{}{}{}{}", a, mid.concat(), b, tail.unwrap_or("")))
        .boxed()
}

fn arbitrary_bytes() -> BoxedStrategy<Vec<u8>> {
    prop_oneof![
        3 => prop::collection::vec(any::<u8>(), 0..64),
        2 => prop::collection::vec(prop::sample::select(b"{},<>=*?[]-.0123456789abnrcpl@+ \n\t\0\xff\xc3\xa0()$#:/".to_vec()), 0..80),
        1 => prop::collection::vec(any::<char>(), 0..24).prop_map(|v| v.into_iter().collect::<String>().into_bytes()),
        1 => prop::collection::vec(any::<u8>(), 200..600),
    ]
    .boxed()
}

#[derive(Clone, Debug)]
enum Mutation {
    Truncate(u16),
    DuplicateSlice(u16, u16),
    Splice(u16, u16),
    HugeNumber(u16, u16),
    InsertBytes(u16, Vec<u8>),
    LongLine(u16, u16),
    DeleteSlice(u16, u16),
    FlipByte(u16, u8),
    /// a short token repeated a chosen number of times (many fields, many groups, many items)
    Repeat(u16, Vec<u8>, u16),
    /// a token of the library's own source
    DictToken(u16, Vec<u8>),
}

fn mutation() -> BoxedStrategy<Mutation> {
    prop_oneof![
        3 => any::<u16>().prop_map(Mutation::Truncate),
        2 => (any::<u16>(), any::<u16>()).prop_map(|(a, b)| Mutation::DuplicateSlice(a, b)),
        2 => (any::<u16>(), any::<u16>()).prop_map(|(a, b)| Mutation::Splice(a, b)),
        3 => (any::<u16>(), 19u16..400).prop_map(|(a, b)| Mutation::HugeNumber(a, b)),
        3 => (any::<u16>(), prop::sample::select(vec![&b"\0"[..], b"\xff", b"\xc3", b"\xf0\x9f", b"\n\n", b"\n\n\n", b"\n\n\n\n", b"\r\n", b"=", b"-", b"{", b"}", b"nb", b"@", b"\xa0", b" ", b"<", b">=", "\u{130}".as_bytes(), "\u{23a}".as_bytes(), "\u{23e}".as_bytes(), "ß".as_bytes(), "\u{fb01}".as_bytes(), "\u{212a}".as_bytes(), "\u{feff}".as_bytes(), b"\r"]).prop_map(|s| s.to_vec())).prop_map(|(a, b)| Mutation::InsertBytes(a, b)),
        1 => (any::<u16>(), 500u16..3500).prop_map(|(a, b)| Mutation::LongLine(a, b)),
        2 => (any::<u16>(), any::<u16>()).prop_map(|(a, b)| Mutation::DeleteSlice(a, b)),
        2 => (any::<u16>(), any::<u8>()).prop_map(|(a, b)| Mutation::FlipByte(a, b)),
        2 => (any::<u16>(), prop::sample::select(vec![&b" t"[..], b" ", b"\t", b"x ", b",", b".1", b"nb1", b"a-", b"/", b"../", b"\n", b"=", b"{a}", b"[", b"*", b"?", b":", b" a=b", b"\xc3\xa9"]), crate::engine::gen::interesting_len(700))
            .prop_map(|(a, t, n)| Mutation::Repeat(a, t.to_vec(), n as u16)),
        2 => (any::<u16>(), crate::engine::dict::byte_token(|_| true, b"a")).prop_map(|(a, t)| Mutation::DictToken(a, t)),
    ]
    .boxed()
}

fn apply_mutation(doc: &mut Vec<u8>, other: &[u8], m: &Mutation) {
    let len = doc.len();
    match m {
        Mutation::Truncate(p) => doc.truncate(idx(*p, len + 1)),
        Mutation::DuplicateSlice(a, b) => {
            let (x, y) = (idx(*a, len + 1), idx(*b, len + 1));
            let (lo, hi) = (x.min(y), x.max(y));
            let s = doc[lo..hi].to_vec();
            doc.splice(hi..hi, s);
        }
        Mutation::Splice(a, b) => {
            let at = idx(*a, len + 1);
            let from = idx(*b, other.len() + 1);
            doc.truncate(at);
            doc.extend_from_slice(&other[from..]);
        }
        Mutation::HugeNumber(p, digits) => {
            // replace the digit run at/after p (or insert) by a very long number
            let start = (idx(*p, len + 1)..len).find(|i| doc[*i].is_ascii_digit()).unwrap_or(idx(*p, len + 1));
            let mut end = start;
            while end < doc.len() && doc[end].is_ascii_digit() {
                end += 1;
            }
            let num: Vec<u8> = (0..*digits).map(|i| b'1' + ((i * 7) % 9) as u8).collect();
            doc.splice(start..end, num);
        }
        Mutation::InsertBytes(p, b) => {
            let at = idx(*p, len + 1);
            doc.splice(at..at, b.iter().copied());
        }
        Mutation::LongLine(p, n) => {
            let at = idx(*p, len + 1);
            let line: Vec<u8> = (0..*n).map(|i| b"ab1-.x"[(i % 6) as usize]).collect();
            doc.splice(at..at, line);
        }
        Mutation::DeleteSlice(a, b) => {
            let (x, y) = (idx(*a, len + 1), idx(*b, len + 1));
            doc.drain(x.min(y)..x.max(y));
        }
        Mutation::FlipByte(p, v) => {
            if len > 0 {
                doc[idx(*p, len)] ^= *v | 1;
            }
        }
        Mutation::Repeat(p, t, n) => {
            // at a line end if there is one at / after p, otherwise at p
            let from = idx(*p, len + 1);
            let at = (from..len).find(|i| doc[*i] == b'\n').unwrap_or(from);
            let rep: Vec<u8> = t.iter().copied().cycle().take(t.len() * *n as usize).collect();
            doc.splice(at..at, rep);
        }
        Mutation::DictToken(p, t) => {
            let at = idx(*p, len + 1);
            doc.splice(at..at, t.iter().copied());
        }
    }
}

/// grammar-derived valid (or nearly valid) documents per target
fn grammar(target: &'static str) -> BoxedStrategy<Vec<u8>> {
    match target {
        "pattern" => {
            let pat = prop_oneof![
                3 => seed_line(SEED_PKGDEPS),
                2 => c04::pattern_strategy(3),
                1 => (20usize..90).prop_map(|n| format!("{{{}}}-[0-9]*", (0..n).map(|i| format!("p{}", i)).collect::<Vec<_>>().join(","))),
                1 => (30usize..100).prop_map(|n| format!("p{}-1", "{a}".repeat(n))),
                2 => (prop::sample::select(vec!["pkg", "a-b", "", "é"]), prop::sample::select(vec![">=", ">", "<", "<="]), vergen::tokens(6)).prop_map(|(b, o, v)| format!("{}{}{}", b, o, v.concat())),
                1 => (vergen::tokens(3), vergen::tokens(3)).prop_map(|(a, b)| format!("p>={}<{}", a.concat(), b.concat())),
                1 => "[a-c*?\\[\\]!0-9-]{0,10}",
            ];
            let name = || prop_oneof![3 => seed_line(SEED_PKGNAMES), 2 => vergen::tokens(6).prop_map(|v| format!("pkg-{}", v.concat())), 1 => "[a-c0-9.-]{0,8}", 1 => case_fold_name()];
            // correlated: the bound and the candidates' versions are edits of one token list (the
            // decision then falls on one differing component - a huge number against a modifier ...)
            let correlated = (prop::sample::select(vec![">=", ">", "<", "<="]), vergen::pair(8), vergen::pair(6), any::<bool>()).prop_map(|(op, (a, b), (c, _), two)| {
                let pattern = if two { format!("pkg>={}<{}", a, c) } else { format!("pkg{}{}", op, a) };
                format!("{}\npkg-{}\npkg-{}", pattern, b, a).into_bytes()
            });
            prop_oneof![
                3 => (pat, name(), name()).prop_map(|(p, a, b)| format!("{}\n{}\n{}", p, a, b).into_bytes()),
                1 => correlated,
            ]
            .boxed()
        }
        "names" => prop::collection::vec(
            prop_oneof![
                3 => seed_line(SEED_PKGNAMES),
                2 => (seed_line(SEED_PKGDEPS), prop::sample::select(vec!["../../cat/pkg", "cat/pkg", "../cat", "", "a/b/c", "..//..//x//y//"])).prop_map(|(p, q)| format!("{}:{}", p, q)),
                2 => prop::sample::select(vec!["../../cat/pkg", "cat/pkg", "./a/b", "/a/b", "a/../b", "..", "a//b/", "../../a/b/."]).prop_map(String::from),
                1 => vergen::tokens(6).prop_map(|v| format!("x-{}nb{}", v.concat(), v.len())),
                1 => case_fold_name(),
            ],
            1..6,
        )
        .prop_map(|v| v.join("\n").into_bytes())
        .boxed(),
        "summary" => prop_oneof![
            3 => sumgen::assignment(sumgen::text).prop_map(|a| ms::print(&a).into_bytes()),
            1 => Just(SEED_SUMMARY.as_bytes().to_vec()),
        ]
        .boxed(),
        "stream" => (any::<u8>(), prop::collection::vec((sumgen::assignment(sumgen::stream_text), 0usize..12), 1..4), 0usize..8)
            .prop_map(|(c, es, lead)| {
                // entries separated by one blank line - now and then by none or by several, and
                // the stream may start with blank lines (empty records)
                let mut v = vec![c];
                if lead >= 6 {
                    v.extend(std::iter::repeat(b'\n').take(lead - 4));
                }
                for (a, sep) in es {
                    v.extend_from_slice(ms::print(&a).as_bytes());
                    let blanks = match sep { 0 => 0, 1 => 2, 2 => 3, 3 => 4, _ => 1 };
                    v.extend(std::iter::repeat(b'\n').take(blanks));
                }
                v
            })
            .boxed(),
        "plist" => prop_oneof![
            3 => prop::collection::vec(prop_oneof![3 => c14::command_line(), 2 => seed_line(SEED_PLIST).prop_map(|s| s.into_bytes()), 1 => c14::arg_bytes()], 0..20).prop_map(|v| v.join(&b"\n"[..])),
            1 => Just(SEED_PLIST.as_bytes().to_vec()),
        ]
        .boxed(),
        "distinfo" => prop_oneof![
            3 => distgen::doc(6).prop_map(|d| crate::models::distinfo::print(&d)),
            2 => (0usize..3).prop_map(|i| SEED_DISTINFO[i].as_bytes().to_vec()),
        ]
        .boxed(),
        "scanindex" => prop_oneof![
            3 => prop::collection::vec(
                prop_oneof![
                    2 => prop::sample::select(vec!["PKGNAME=foo-1.0", "PKGNAME=", " PKGNAME=x"]).prop_map(String::from),
                    3 => seed_line(SEED_PBULK),
                    2 => (0usize..c16::GOOD_DEPENDS.len(), 0usize..c16::BAD_DEPENDS.len(), any::<bool>()).prop_map(|(g, b, bad)| format!("ALL_DEPENDS={} {}", c16::GOOD_DEPENDS[g], if bad { c16::BAD_DEPENDS[b] } else { "" })),
                    1 => prop::sample::select(vec!["PKG_LOCATION=cat/pkg", "PKG_LOCATION=../x", "MULTI_VERSION=A=1 B=2", "junk", ""]).prop_map(String::from),
                ],
                0..12
            ).prop_map(|v| v.join("\n").into_bytes()),
            1 => Just(SEED_PBULK.as_bytes()[..SEED_PBULK.len().min(4000)].to_vec()),
        ]
        .boxed(),
        "digest" => (
            prop_oneof![
                4 => prop::sample::select(vec!["SHA1", "sha512", "BLAKE2s", "rmd160", "md5", "SHA256", "sha3", ""]).prop_map(String::from),
                // names of a chosen length around characters whose case mappings change the
                // encoded length (U+0130, U+023A, U+023E, sharp s, U+01F0, the fi ligature, Kelvin)
                2 => (crate::engine::gen::interesting_len(40), prop::collection::vec(prop::sample::select(vec!["\u{130}", "\u{23a}", "\u{23e}", "ß", "\u{1f0}", "\u{fb01}", "\u{212a}", "é", "S", "a"]), 1..8), prop::sample::select(vec!["", "sha", "MD", "bla\u{212a}e2s"]))
                    .prop_map(|(n, specials, word)| format!("{}{}{}", word, "a".repeat(n), specials.concat())),
                1 => crate::engine::dict::string_token(|c| c != '\n', "SHA1"),
            ],
            prop_oneof![2 => Just(SEED_PATCH.as_bytes().to_vec()), 2 => prop::collection::vec(any::<u8>(), 0..300)],
        )
            .prop_map(|(n, d)| [n.as_bytes().to_vec(), b"\n".to_vec(), d].concat())
            .boxed(),
        "metadata" => prop_oneof![
            3 => prop::sample::select(vec!["+SIZE_PKG", "+COMMENT", "12345\n", " 42 ", "abc", "", "-7", "9223372036854775808", "A comment\n", "l1\nl2\n", "+DESC\ntext", "1e3", "0x10", "+1"]).prop_map(|s| s.as_bytes().to_vec()),
            1 => prop::collection::vec(any::<u8>(), 0..40),
        ]
        .boxed(),
        "pkgdb" => prop::collection::vec(
            (prop::sample::select(vec![&b"foo-1.0"[..], b"nodash", b"a-b-c-1nb2", b"\xe9-1", b"x\xff", b"+COMMENT", b"-", b"--", b""]), prop::collection::vec(any::<u8>(), 0..4))
                .prop_map(|(n, m)| [n.to_vec(), vec![1u8], m].concat()),
            0..5,
        )
        .prop_map(|v| v.join(&[0u8][..]))
        .boxed(),
        _ => prop::collection::vec(any::<u8>(), 0..200).boxed(), // summary_ops: decoded structurally
    }
}

pub fn cases_for(target: &'static str) -> BoxedStrategy<Case> {
    let mk = move |source: &'static str| move |d: Vec<u8>| Case { target: target.to_string(), data: B(d), source: source.to_string() };
    prop_oneof![
        2 => arbitrary_bytes().prop_map(mk("arbitrary")),
        4 => grammar(target).prop_map(mk("grammar")),
        5 => (grammar(target), grammar(target), prop::collection::vec(mutation(), 1..=3)).prop_map(move |(mut d, other, ms)| {
            for m in &ms {
                apply_mutation(&mut d, &other, m);
            }
            Case { target: target.to_string(), data: B(d), source: "mutated".to_string() }
        }),
    ]
    .boxed()
}

pub fn check(c: &Case, obs: &mut Obs) -> Result<(), String> {
    if !targets::TARGETS.contains(&c.target.as_str()) {
        obs.excluded = true;
        return Ok(());
    }
    // a panic inside run() is caught by the engine and reported as the failure of this case
    let pr = targets::run(&c.target, &c.data.0);
    if pr.excluded {
        obs.excluded = true;
        return Ok(());
    }
    obs.verdicts += 1;
    obs.nontrivial = pr.past_validation || c.source == "mutated";
    if pr.past_validation {
        obs.class("past-first-validation");
    }
    match c.source.as_str() {
        "arbitrary" => obs.class("source=arbitrary"),
        "grammar" => obs.class("source=grammar"),
        "mutated" => obs.class("source=mutated-valid-document"),
        _ => obs.class("source=seed-prefix"),
    }
    if !crate::models::dewey::numbers_in_domain(&String::from_utf8_lossy(&c.data.0)) {
        obs.class("digit-run-over-18");
    }
    if std::str::from_utf8(&c.data.0).is_err() {
        obs.class("not-utf8");
    }
    Ok(())
}

/// every prefix of the repository's own fixtures (truncation at every byte)
fn prefixes(tier: Tier) -> Box<dyn Iterator<Item = Case>> {
    let step = tier.pick(3usize, 1usize);
    let docs: Vec<(&'static str, Vec<u8>)> = vec![
        ("distinfo", SEED_DISTINFO[0].as_bytes().to_vec()),
        ("distinfo", SEED_DISTINFO[2].as_bytes().to_vec()),
        ("summary", SEED_SUMMARY.as_bytes().to_vec()),
        ("stream", [&[0u8][..], SEED_SUMMARY.as_bytes(), b"\n", SEED_SUMMARY.as_bytes(), b"\n"].concat()),
        ("plist", SEED_PLIST.as_bytes().to_vec()),
        ("scanindex", SEED_PBULK.as_bytes()[..1500].to_vec()),
        ("digest", [&b"sha1\n"[..], SEED_PATCH.as_bytes()].concat()),
        ("pattern", b"{mysql,mariadb,percona}-[0-9]*\nmysql-8.0.36\nmariadb-11.4.3".to_vec()),
        ("pattern", b"librsvg>=2.12<2.41\nlibrsvg-2.13\nlibrsvg-2.41nb1".to_vec()),
        ("names", b"mktool-[0-9]*:../../pkgtools/mktool\nmktool-1.3.2nb2\n../../pkgtools/pkg_install".to_vec()),
        ("metadata", b"+SIZE_PKG\n12345".to_vec()),
    ];
    Box::new(docs.into_iter().flat_map(move |(t, d)| {
        (0..=d.len()).step_by(step).map(move |n| Case { target: t.to_string(), data: B(d[..n].to_vec()), source: "seed".to_string() }).collect::<Vec<_>>()
    }))
}

/// replay-only: matching a pattern with `groups` nested brace groups on a thread with a stack of
/// `stack_kib` KiB (the matcher recurses once per group; witness of known finding KF-2)
#[derive(Clone, Debug, Serialize, Deserialize)]
pub struct DeepCase {
    pub groups: u32,
    pub stack_kib: u32,
}

pub fn check_deep(c: &DeepCase, _obs: &mut Obs) -> Result<(), String> {
    let n = c.groups as usize;
    let stack = (c.stack_kib as usize) << 10;
    let h = std::thread::Builder::new()
        .stack_size(stack)
        .spawn(move || {
            let p = format!("{}a{}", "{".repeat(n), "}".repeat(n));
            pkgsrc::Pattern::new(&p).map(|p| p.matches("a")).unwrap_or(false)
        })
        .map_err(|e| e.to_string())?;
    match h.join() {
        Ok(true) => Ok(()),
        Ok(false) => Err(format!("{} nested groups around 'a' do not match 'a'", n)),
        Err(_) => Err("panic while matching".into()),
    }
}

macro_rules! target_stream {
    ($name:expr, $q:expr, $t:expr) => {
        random_stream($name, concat!("entry points of target '", $name, "': arbitrary bytes, grammar-derived documents and mutations of them"), |_| cases_for($name), |t| t.pick($q, $t), check)
    };
}

pub fn property() -> Property {
    Property {
        id: "C17",
        rule: "Eleven byte-level targets cover every public entry point that takes external text or bytes (pattern compile/match/best_match + Dewey; PkgName/PkgPath/Depend; Summary::from_str + getters + Display; SummaryStream::write chunked; Plist/PlistEntry + views; Distinfo parse/write/lookup/verify-on-missing-file + EntryType; ScanIndex::from_reader; Digest::from_str + hash_file/hash_patch/hash_str with a chunked reader; Metadata::read_metadata for all 14 entries + is_valid + from_filename; PkgDB::open + iteration + read_metadata over directory trees decoded from the bytes; a call-sequence interpreter over the Summary setters, pushers, getters, is_completed, Display, clone). Inputs per target: arbitrary bytes / Unicode (20%), grammar-derived documents from the generators of C01-C16 and the repository's own fixtures and real pkgsrc patterns / names (35%), and 1-3 mutations of such documents (45%): truncation, slice duplication / deletion, splicing two documents, replacing a number by a 19-400 digit one, inserting NUL / invalid UTF-8 / LF LF / braces / operators, 500-3500 character lines, byte flips. Enumerated stream: every prefix of the fixtures. Oracle: the call returns (no panic - caught and reported with its message and location) within the 20 s watchdog (a trip is confirmed in isolation with a 60 s budget before it counts); inputs are capped at 4 KiB and brace patterns with more than 1024 expansions are excluded and counted (cost exponential by specification). Non-trivial = the entry point got past its first validation step (pattern compiled, a record / entry / line was produced, ...) or the input is a mutation of a valid document. Distinct = distinct inputs. Generators also draw, at low weight, tokens from the source-literal dictionary (every string / byte / character literal of the library's own source, collected at build time and filtered by this domain's character class) (through the shared generators; thorough: appended to the libFuzzer dictionaries).",
        assumptions: vec![
            "inputs are at most 4 KiB; deeper recursion (one level per brace group) and larger inputs are not explored",
            "PkgDB::open on an unreadable directory is not reachable as root",
        ],
        streams: vec![
            target_stream!("pattern", 30_000, 1_000_000),
            target_stream!("names", 15_000, 500_000),
            target_stream!("summary", 12_000, 400_000),
            target_stream!("stream", 8_000, 300_000),
            target_stream!("plist", 15_000, 500_000),
            target_stream!("distinfo", 12_000, 400_000),
            target_stream!("scanindex", 12_000, 400_000),
            target_stream!("digest", 6_000, 200_000),
            target_stream!("metadata", 10_000, 300_000),
            target_stream!("pkgdb", 1_500, 40_000),
            target_stream!("summary_ops", 20_000, 600_000),
            enumerated_stream("fixture-prefixes", "every prefix of the repository's fixtures at every entry point that reads them", prefixes, check),
            crate::fuzz::replay_stream(),
            random_stream(
                "deep-nesting",
                "replay-only: N nested brace groups on a thread with a given stack (witness of KF-2)",
                |_| (1u32..4, 64u32..128).prop_map(|(groups, stack_kib)| DeepCase { groups, stack_kib }).boxed(),
                |_| 0,
                check_deep,
            ),
        ],
        selfcheck: || Ok(()),
        hang_is_violation: true,
        min_nontrivial_share: 0.2,
        extra: Some(crate::fuzz::extra),
    }
}
