//! Generators for distinfo file names, hashes and canonical documents (C10-C12, C17).

use crate::models::distinfo::{self as m, Doc, File, Kind};
use crate::models::hash::{Alg, ALGS};
use proptest::prelude::*;
use proptest::strategy::BoxedStrategy;

fn name_byte() -> BoxedStrategy<u8> {
    prop_oneof![
        6 => prop::sample::select(b"abcxyz019-_.+".to_vec()),
        3 => prop::sample::select(vec![0xc3u8, 0xa0, 0x85, 0xe9, 0xff, 0xa9, 0x80, 0xc2]),
        2 => prop::sample::select(b"()=#$~".to_vec()),
        // any byte that no reading calls white space (control bytes included; VT and FF are left
        // out with the other bytes of C's isspace)
        1 => (0x01u8..=0xff).prop_filter("no slash, no white space", |b| *b != b'/' && !m::is_ws(*b)),
        1 => Just(0u8),
    ]
    .boxed()
}

fn component_byte(b: u8) -> bool {
    b != b'/' && !m::is_ws(b)
}

fn component() -> BoxedStrategy<Vec<u8>> {
    prop_oneof![
        60 => prop::collection::vec(name_byte(), 1..=12),
        // now and then a very long component (names are paths, not NAME_MAX-limited tokens)
        1 => (prop::collection::vec(name_byte(), 1..=6), 100usize..400).prop_map(|(v, n)| (0..n).map(|i| if v[i % v.len()] == 0 { b'x' } else { v[i % v.len()] }).collect::<Vec<u8>>()),
        // a token of the library's own source (no '/', no white space), alone or as a suffix
        5 => (prop::option::weighted(0.5, prop::collection::vec(name_byte(), 1..=6)), crate::engine::dict::byte_token(component_byte, b"x")).prop_map(|(pre, t)| [pre.unwrap_or_default(), t].concat()),
        20 => prop::sample::select(vec![
            &b"foo-1.0.tar.gz"[..], b"caf\xe9.tar.gz", b"\xc3\xa0.tgz", b"\xc3\x85ngstr\xc3\xb6m.zip", b"\xa0", b"\x85", b"a\xa0b", b"(x)", b"x)", b"(x",
            b"a=b", b"#c", b"$d", b"sub", b"..."
        ]).prop_map(|s| s.to_vec()),
    ]
    .prop_filter("no . or ..", |c| c != b"." && c != b"..")
    .boxed()
}

fn patch_component() -> BoxedStrategy<Vec<u8>> {
    prop_oneof![
        4 => prop::collection::vec(name_byte(), 0..8).prop_map(|v| [b"patch-".to_vec(), v].concat()),
        2 => (prop::collection::vec(prop::sample::select(b"abclinux32".to_vec()), 1..6), prop::collection::vec(name_byte(), 0..6))
            .prop_map(|(w, v)| [b"emul-".to_vec(), w, b"-patch-".to_vec(), v].concat()),
        1 => (prop::collection::vec(name_byte(), 0..4), prop::collection::vec(name_byte(), 0..6))
            .prop_map(|(w, v)| [b"emul-".to_vec(), w, b"-patch-".to_vec(), v].concat()),
        // an emul name whose '.tar.' (or another exception marker) sits in front of '-patch-'
        1 => (prop::sample::select(vec![&b"1.0.tar.gz"[..], b"a.tar.", b".tar.", b"x.tar", b"tar.gz", b"a.orig", b"local"]), prop::collection::vec(name_byte(), 0..6))
            .prop_map(|(w, v)| [b"emul-".to_vec(), w.to_vec(), b"-patch-".to_vec(), v].concat()),
        // the exceptions (these are distfiles)
        3 => prop::sample::select(vec![
            &b"patch-local-x"[..], b"patch-a.orig", b"patch-a.rej", b"patch-a~", b"patch-2.7.6.tar.xz", b"foo.patch-1", b"emul-x",
            b"emul-linux-patch-a.orig", b"patch-aa", b"patch-src_main.c", b"emul-a-patch-b.tar.gz", b"xpatch-a", b"Patch-a",
            b"patch-Makefile.target", b"patch-x.tar", b"patch-a.tardy.c", b"patch-local", b"patch-locale.c", b"patch-a.origin", b"patch-a.rejected", b"patch-~a",
        ]).prop_map(|s| s.to_vec()),
    ]
    .boxed()
}

fn splice_first_slash(name: &[u8], with: &[u8]) -> Vec<u8> {
    match name.iter().position(|b| *b == b'/') {
        Some(i) => [&name[..i], with, &name[i + 1..]].concat(),
        None => name.to_vec(),
    }
}

/// a file name of 1-3 components on which the classification rule is unambiguous
pub fn name() -> BoxedStrategy<Vec<u8>> {
    (prop::collection::vec(component(), 0..=2), prop_oneof![3 => component(), 2 => patch_component()])
        .prop_map(|(dirs, last)| {
            // by construction: a name in a sub-directory must classify the same on its basename
            // and as a whole (patches are recorded by their file name only)
            let mut parts = dirs;
            parts.push(last.clone());
            // a leading "./" is part of the name (1 name in 16)
            if last.len() % 16 == 3 && !parts.is_empty() {
                parts.insert(0, b".".to_vec());
            }
            // doubled / trailing / leading '/' and an interior "." (1 name in 10)
            let mut joined = parts.join(&b"/"[..]);
            match last.iter().map(|b| *b as usize).sum::<usize>() % 50 {
                0 => joined = splice_first_slash(&joined, b"//"),
                1 => joined.push(b'/'),
                2 => joined = splice_first_slash(&joined, b"/./"),
                3 => joined.insert(0, b'/'),
                4 => joined.extend_from_slice(b"//"),
                5 => joined = [b"../".to_vec(), joined].concat(),
                6 => joined = splice_first_slash(&joined, b"/../"),
                7 => joined = [b"../../".to_vec(), joined].concat(),
                _ => {}
            }
            if m::unambiguous(&joined) {
                joined
            } else {
                last
            }
        })
        .prop_filter("unambiguous classification, no white space", |n| {
            m::unambiguous(n) && !n.iter().any(|b| m::is_ws(*b))
        })
        .boxed()
}

pub fn hash_token(alg: Alg) -> BoxedStrategy<String> {
    let n = alg.hex_len();
    prop_oneof![
        5 => prop::collection::vec(prop::sample::select(b"0123456789abcdef".to_vec()), n..=n).prop_map(|v| String::from_utf8(v).unwrap()),
        1 => prop::sample::select(vec!["ojnk", "0", "=", "é", "(x)", "DEADBEEF", "#"]).prop_map(String::from),
        1 => crate::engine::dict::string_token(|c| !c.is_whitespace(), "x"),
    ]
    .boxed()
}

pub fn checksums() -> BoxedStrategy<Vec<(Alg, String)>> {
    prop::collection::vec((0usize..ALGS.len()).prop_flat_map(|i| hash_token(ALGS[i]).prop_map(move |h| (ALGS[i], h))), 1..=4).boxed()
}

pub fn size() -> BoxedStrategy<Option<u64>> {
    prop::option::weighted(
        0.7,
        prop_oneof![2 => prop::sample::select(vec![0u64, 1, u64::MAX, 783756]), 1 => any::<u64>(), 1 => crate::engine::gen::interesting_u64(u64::MAX)],
    )
    .boxed()
}

pub fn rcsid() -> BoxedStrategy<Option<Vec<u8>>> {
    prop_oneof![
        2 => Just(None),
        3 => Just(Some(b"$NetBSD: distinfo,v 1.80 2024/05/27 23:27:10 riastradh Exp $".to_vec())),
        3 => prop::collection::vec(any::<u8>().prop_filter("no LF", |b| *b != b'\n'), 0..30)
            .prop_map(|v| Some([b"$NetBSD: ".to_vec(), v].concat())),
    ]
    .boxed()
}

/// a canonical document: distinct names, each in the section its classification says
pub fn doc(max_files: usize) -> BoxedStrategy<Doc> {
    (rcsid(), prop::collection::vec((name(), checksums(), size()), 0..=max_files))
        .prop_map(|(rcsid, files)| {
            let mut d = Doc { rcsid, ..Default::default() };
            let mut seen = std::collections::BTreeSet::new();
            // a second file with the same last component in another directory
            let mut files = files;
            if let Some((n, c, s)) = files.first().cloned() {
                if files.len() % 3 == 1 && m::classify(&n) == Kind::Distfile {
                    let twin = [b"twin-dir/".to_vec(), m::basename(&n).to_vec()].concat();
                    if m::unambiguous(&twin) {
                        files.insert(1.min(files.len()), (twin, c.into_iter().rev().collect(), s.map(|x| x ^ 1)));
                    }
                }
            }
            // names that are a prefix / a suffix of another name, adjacent or apart
            if let Some((n, c, s)) = files.last().cloned() {
                let k = n.iter().map(|b| *b as usize).sum::<usize>();
                let twin: Option<Vec<u8>> = match k % 12 {
                    0 => Some([n.clone(), b".asc".to_vec()].concat()),
                    1 => Some([n.clone(), b".sig".to_vec()].concat()),
                    2 => Some([b"lib".to_vec(), n.clone()].concat()),
                    3 => Some([b"x".to_vec(), n.clone()].concat()),
                    4 if n.len() > 1 => Some(n[..n.len() - 1].to_vec()),
                    5 if n.len() > 1 => Some(n[1..].to_vec()),
                    _ => None,
                };
                if let Some(t) = twin {
                    if m::name_in_domain(&t) && !t.starts_with(b"/") {
                        let at = if k % 2 == 0 { files.len() } else { 0 };
                        files.insert(at, (t, c.clone(), s.map(|x| x.wrapping_add(1))));
                    }
                }
            }
            let mut seen_keys = std::collections::BTreeSet::new();
            for (name, checksums, size) in files {
                if !seen_keys.insert(m::path_key(&name)) {
                    continue;
                }
                if !seen.insert(name.clone()) {
                    continue;
                }
                match m::classify(&name) {
                    Kind::Distfile => d.distfiles.push(File { name, checksums, size }),
                    Kind::Patchfile => d.patchfiles.push(File { name, checksums, size: None }),
                }
            }
            d
        })
        .boxed()
}
