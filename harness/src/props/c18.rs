//! C18 — PKGNAME decomposition is lossless and consistent across the library.

use crate::engine::*;
use crate::props::vergen;
use pkgsrc::summary::Summary;
use pkgsrc::{Pattern, PkgName};
use proptest::prelude::*;
use serde::{Deserialize, Serialize};

#[derive(Clone, Debug, Serialize, Deserialize)]
pub struct Case {
    pub name: String,
}

pub fn case_strategy(_t: Tier) -> BoxedStrategy<Case> {
    let part = || {
        prop_oneof![
            4 => prop::sample::select(vec!["", "a", "foo", "py312", "nb", "nb1", "x-nb1", "libnbcompat", "é", "1.0", "p5"]).prop_map(String::from),
            2 => vergen::tokens(5).prop_map(|t| t.concat().replace('-', "")),
            1 => "[a-z0-9.]{0,6}",
            // a token of the library's own source (may contain '-', brackets, anything printable)
            1 => crate::engine::dict::string_token(printable, "a"),
        ]
    };
    let rev = prop_oneof![
        3 => (0u32..5).prop_map(|n| n.to_string()),
        2 => prop::sample::select(vec!["0", "00", "01", "007", "10", "999999999999999999", "100000000000000000", "000000000000000001"]).prop_map(String::from),
        1 => (1usize..=18, any::<u64>(), any::<u64>()).prop_map(|(l, a, b)| crate::engine::gen::digits(l, a, b)),
    ];
    let version = prop_oneof![
        3 => (part(), rev.clone()).prop_map(|(p, r)| format!("{}nb{}", p, r)),
        2 => (part(), rev.clone(), part(), rev).prop_map(|(p, r, q, r2)| format!("{}nb{}{}nb{}", p, r, q, r2)),
        2 => part(),
        1 => part().prop_map(|p| format!("{}nb", p)),
        1 => part().prop_map(|p| format!("{}nbx", p)),
    ];
    prop_oneof![
        6 => (prop::collection::vec(part(), 0..=3), version).prop_map(|(mut ps, v)| { ps.push(v); ps.join("-") }),
        1 => part(),
        1 => prop::collection::vec(any::<char>(), 0..10).prop_map(|v| v.into_iter().collect::<String>()),
        1 => "[a-c1-2nb.-]{0,10}",
        // a version of very many components in front of the revision
        1 => (crate::engine::gen::interesting_len(1300), prop::sample::select(vec!["1.", "0.", "a", "1_", ".", "1a", "rc1."]), 0u32..12, prop::sample::select(vec!["pkg", "a-b", "é"]))
            .prop_map(|(n, unit, r, base)| format!("{}-{}nb{}", base, unit.repeat(n), r)),
    ]
    .prop_map(|name| Case { name })
    .boxed()
}

fn printable(c: char) -> bool {
    !c.is_control()
}

fn matches(pattern: &str, name: &str) -> Result<bool, String> {
    Pattern::new(pattern).map(|p| p.matches(name)).map_err(|e| format!("Pattern::new({:?}): {}", pattern, e))
}

pub fn check(c: &Case, obs: &mut Obs) -> Result<(), String> {
    let n = c.name.as_str();
    let p = PkgName::new(n);
    obs.verdicts += 1;
    if p.pkgname() != n {
        return Err(format!("pkgname() = {:?} for input {:?}", p.pkgname(), n));
    }
    let (base, version, has_dash) = match n.rfind('-') {
        Some(i) => (&n[..i], &n[i + 1..], true),
        None => (n, "", false),
    };
    if p.pkgbase() != base || p.pkgversion() != version {
        return Err(format!(
            "PkgName::new({:?}): base {:?} / version {:?}, expected {:?} / {:?} (split at the last '-')",
            n, p.pkgbase(), p.pkgversion(), base, version
        ));
    }
    if has_dash && format!("{}-{}", p.pkgbase(), p.pkgversion()) != n {
        return Err(format!("base + '-' + version does not rebuild {:?}", n));
    }
    if p.pkgversion().contains('-') {
        return Err(format!("pkgversion() {:?} contains '-'", p.pkgversion()));
    }
    // revision
    let tail_rev: Option<(usize, &str)> = version.rfind("nb").and_then(|i| {
        let d = &version[i + 2..];
        if !d.is_empty() && d.bytes().all(|b| b.is_ascii_digit()) { Some((i, d)) } else { None }
    });
    obs.verdicts += 1;
    if let Some((at, digits)) = tail_rev {
        if digits.len() <= 18 {
            let r: i64 = digits.parse().unwrap();
            if p.pkgrevision() != Some(r) {
                return Err(format!("PkgName::new({:?}).pkgrevision() = {:?}, the version ends in nb{}", n, p.pkgrevision(), digits));
            }
            obs.class("version-ends-in-nb<digits>");
            // the same revision is the one the comparison uses
            let x = &version[..at];
            if !base.contains(['<', '>', '{', '}']) && !version.contains(['<', '>', '{', '}']) && !x.starts_with('=') && has_dash
                && crate::models::dewey::numbers_in_domain(x)
            {
                let probes: Vec<(String, bool)> = vec![
                    (format!("{}>={}nb{}", base, x, r), true),
                    (format!("{}<={}nb{}", base, x, r), true),
                    (format!("{}>{}nb{}", base, x, r), false),
                    (format!("{}<{}nb{}", base, x, r), false),
                    (format!("{}<{}nb{}", base, x, r + 1), true),
                ];
                for (pat, want) in probes {
                    let got = matches(&pat, n)?;
                    obs.verdicts += 1;
                    if got != want {
                        return Err(format!(
                            "{:?} reports PKGREVISION {} but pattern {:?} matches = {} (expected {}): the comparison uses another revision",
                            n, r, pat, got, want
                        ));
                    }
                }
                // bounds that carry no revision at all: the name's revision r decides
                // (not when the text before the last nb holds a revision of its own)
                let plain_x = !x.to_ascii_lowercase().contains("nb");
                for (pat, want) in if !plain_x { vec![] } else { vec![
                    (format!("{}>={}", base, x), true),
                    (format!("{}<={}", base, x), r == 0),
                    (format!("{}>{}", base, x), r > 0),
                    (format!("{}<{}", base, x), false),
                    (format!("{}<={}nb0", base, x), r == 0),
                ] } {
                    let got = matches(&pat, n)?;
                    obs.verdicts += 1;
                    if got != want {
                        return Err(format!(
                            "{:?} reports PKGREVISION {} but pattern {:?} (a bound without revision) matches = {} (expected {})",
                            n, r, pat, got, want
                        ));
                    }
                }
                if r > 0 {
                    let pat = format!("{}>{}nb{}", base, x, r - 1);
                    if !matches(&pat, n)? {
                        return Err(format!("{:?} reports PKGREVISION {} but does not match {:?}", n, r, pat));
                    }
                }
                // the same through bounds of another length (zero padding must not change which
                // revision is compared)
                for pad in [".0", "_", "pl", ".0.0"] {
                    for (pat, want) in [
                        (format!("{}>={}{}nb{}", base, x, pad, r), true),
                        (format!("{}<={}{}nb{}", base, x, pad, r), true),
                        (format!("{}<{}{}nb{}", base, x, pad, r + 1), true),
                        (format!("{}>{}{}nb{}", base, x, pad, r), false),
                    ] {
                        // padding only ties when nothing but zero-valued components follow
                        let tail_ok = !x.is_empty() || pad != "pl";
                        if !tail_ok {
                            continue;
                        }
                        let got = matches(&pat, n)?;
                        obs.verdicts += 1;
                        if got != want {
                            return Err(format!(
                                "{:?} reports PKGREVISION {} but pattern {:?} (bound padded with a zero component) matches = {} (expected {})",
                                n, r, pat, got, want
                            ));
                        }
                    }
                }
                obs.class("revision-probed-through-comparison");
            }
        }
    } else if !version.contains("nb") {
        if p.pkgrevision().is_some() {
            return Err(format!("PkgName::new({:?}).pkgrevision() = {:?} although the version has no 'nb'", n, p.pkgrevision()));
        }
        obs.class("no-nb");
    } else {
        obs.class("nb-not-at-the-end(unconstrained)");
    }
    // pkg_summary accessors give the same split for non-empty base and version
    if has_dash && !base.is_empty() && !version.is_empty() && !n.contains(['\r', '\n']) {
        let mut s = Summary::new();
        // the object has held (and answered for) another name before: nothing of it may remain
        if let Some(i) = n.find('-') {
            let earlier = format!("{}-9", &n[..i]);
            s.set_pkgname(&earlier);
            let _ = (s.pkgbase(), s.pkgversion());
        }
        s.set_pkgname(n);
        obs.verdicts += 1;
        if s.pkgbase() != Some(base) || s.pkgversion() != Some(version) {
            return Err(format!(
                "Summary after set_pkgname({:?}): pkgbase {:?} / pkgversion {:?}, PkgName gives {:?} / {:?}",
                n, s.pkgbase(), s.pkgversion(), base, version
            ));
        }
        obs.class("summary-accessors-compared");
    }
    // the version PkgName reports is the version the matcher sees: base>=version and base<=version
    // (reflexivity, C03) must match the name itself
    if has_dash && !n.contains(['<', '>', '{', '}']) && !version.starts_with('=') && crate::models::dewey::numbers_in_domain(version) {
        for op in [">=", "<="] {
            let pat = format!("{}{}{}", base, op, version);
            obs.verdicts += 1;
            if !matches(&pat, n)? {
                return Err(format!(
                    "{:?} has PKGBASE {:?} and PKGVERSION {:?}, but the pattern {:?} built from them does not match it",
                    n, base, version, pat
                ));
            }
        }
        obs.class("reflexive-pattern-probed");
    }
    // best_match compares the same PKGVERSION (text after the last '-') and revision
    if has_dash && crate::models::dewey::longest_digit_run(version) <= 17 {
        let star = Pattern::new("*").map_err(|e| e.to_string())?;
        let (higher, lower): (String, Option<String>) = match tail_rev {
            Some((at, digits)) if digits.len() <= 17 => {
                let r: i64 = digits.parse().unwrap();
                (format!("{}-{}nb{}", base, &version[..at], r + 1), if r > 0 { Some(format!("{}-{}nb{}", base, &version[..at], r - 1)) } else { None })
            }
            // (the comparison reads "nb" case-insensitively, so "NB" counts as a revision too)
            _ if !version.to_ascii_lowercase().contains("nb") => (format!("{}nb1", n), None),
            _ => (String::new(), None),
        };
        if !higher.is_empty() {
            for (x, y) in [(n, higher.as_str()), (higher.as_str(), n)] {
                obs.verdicts += 1;
                if star.best_match(x, y) != Some(higher.as_str()) {
                    return Err(format!("best_match('*'; {:?}, {:?}) = {:?}: the candidate with the higher PKGREVISION must win", x, y, star.best_match(x, y)));
                }
            }
            // the same through a dewey pattern on this base (both candidates must match it)
            if !base.contains(['<', '>', '{', '}']) {
                if let Ok(dp) = Pattern::new(&format!("{}>=", base)) {
                    if dp.matches(n) && dp.matches(&higher) {
                        for (x, y) in [(n, higher.as_str()), (higher.as_str(), n)] {
                            obs.verdicts += 1;
                            if dp.best_match(x, y) != Some(higher.as_str()) {
                                return Err(format!("best_match('{}>='; {:?}, {:?}) = {:?}: the candidate with the higher PKGREVISION must win", base, x, y, dp.best_match(x, y)));
                            }
                        }
                    }
                }
            }
            // a candidate with a longer base and the higher revision (both match '*')
            let longer = format!("zz{}", higher);
            for (x, y) in [(n, longer.as_str()), (longer.as_str(), n)] {
                obs.verdicts += 1;
                if star.best_match(x, y) != Some(longer.as_str()) {
                    return Err(format!("best_match('*'; {:?}, {:?}) = {:?}: the candidate with the higher PKGREVISION must win", x, y, star.best_match(x, y)));
                }
            }
            if let Some(lo) = &lower {
                if star.best_match(n, lo) != Some(n) {
                    return Err(format!("best_match('*'; {:?}, {:?}) = {:?}: the candidate with the higher PKGREVISION must win", n, lo, star.best_match(n, lo)));
                }
            }
            obs.class("best_match-probed");
        }
    }
    // the matcher splits at the same place: a pattern whose base is only the part before an
    // *earlier* '-' must not match
    if has_dash && !n.contains(['<', '>', '{', '}']) {
        if let Some(i) = base.find('-') {
            let shorter = &base[..i];
            for pat in [format!("{}>=", shorter), format!("{}<999999999", shorter), format!("{}>=0", shorter)] {
                obs.verdicts += 1;
                if matches(&pat, n)? {
                    return Err(format!(
                        "pattern {:?} matches {:?} although PKGBASE is {:?} (the name must be split at its last '-')",
                        pat, n, base
                    ));
                }
            }
            obs.class("shorter-base-probed");
        }
    }
    let dashes = n.matches('-').count();
    let nbs = version.matches("nb").count();
    obs.nontrivial = dashes >= 2 || nbs >= 2 || base.contains("nb");
    if dashes >= 2 {
        obs.class("two-or-more-dashes");
    }
    if nbs >= 2 {
        obs.class("nb-twice-in-version");
    }
    if base.contains("nb") {
        obs.class("nb-inside-base");
    }
    if !has_dash {
        obs.class("no-dash");
    }
    Ok(())
}

pub fn property() -> Property {
    Property {
        id: "C18",
        rule: "Strings with 0-4 '-', empty parts, 'nb' inside the base ('nb', 'nb1', 'x-nb1', 'libnbcompat'), versions ending in 'nb' + 1-18 digits (leading zeros, 10^17, 999999999999999999), several 'nb' in the version, 'nb' without digits / followed by letters, version tokens of the C01 generator, non-ASCII, and arbitrary strings. Oracle: pkgname() = input; base / version = text before / after the last '-' (whole string / empty without '-'), base + '-' + version rebuilds the name, version has no '-'; version ending in nb<digits> -> pkgrevision() = that number, and that is the revision the comparison uses: the name matches 'base>=Xnb r' and 'base<=Xnb r', does not match '>' / '<' with r, matches '<Xnb(r+1)' and '>Xnb(r-1)' (X = version up to the last nb); no 'nb' at all -> None; Summary::set_pkgname(n).pkgbase()/pkgversion() give the same split for non-empty base and version. Non-trivial = >= 2 '-' or 'nb' twice in the version or inside the base. Distinct = distinct strings. Generators also draw, at low weight, tokens from the source-literal dictionary (every string / byte / character literal of the library's own source, collected at build time and filtered by this domain's character class) (as name parts); versions of a chosen number (0-1300) of components in front of the revision.",
        assumptions: vec!["versions with 'nb' not followed by digits to the end are only checked for the split (the statement leaves their revision open)"],
        streams: vec![random_stream("names", "generated package names", case_strategy, |t| t.pick(200_000, 10_000_000), check), crate::fuzz::replay_stream()],
        selfcheck: || Ok(()),
        hang_is_violation: false,
        min_nontrivial_share: 0.05,
        extra: Some(crate::fuzz::extra),
    }
}
