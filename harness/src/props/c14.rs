//! C14 — PLIST parses to one entry per non-blank line, arguments kept byte for byte.

use crate::engine::*;
use crate::models::plist::{self as m, ErrKind};
use pkgsrc::plist::{Plist, PlistEntry, PlistError};
use proptest::prelude::*;
use serde::{Deserialize, Serialize};

#[derive(Clone, Debug, Serialize, Deserialize)]
pub struct DocCase {
    pub lines: Vec<B>,
    pub final_newline: bool,
}

impl DocCase {
    pub fn bytes(&self) -> Vec<u8> {
        let mut v = vec![];
        for (i, l) in self.lines.iter().enumerate() {
            if i > 0 {
                v.push(b'\n');
            }
            v.extend_from_slice(&l.0);
        }
        if self.final_newline {
            v.push(b'\n');
        }
        v
    }
}

pub const COMMANDS: [&str; 18] = [
    "@cwd", "@src", "@cd", "@exec", "@unexec", "@mode", "@owner", "@group", "@comment", "@ignore",
    "@name", "@pkgdir", "@dirrm", "@display", "@pkgdep", "@blddep", "@pkgcfl", "@option",
];

/// keep a generated line inside the domain on which the statement is unambiguous
pub fn sanitise(mut line: Vec<u8>) -> Vec<u8> {
    line.retain(|b| *b != b'\n');
    // a line made only of white space must be unambiguously blank
    if line.iter().all(|b| m::is_ascii_ws(*b) || m::is_ambiguous_ws(*b))
        && line.iter().any(|b| m::is_ambiguous_ws(*b))
    {
        line.push(b'x');
    }
    // the argument of a command must not start with VT/FF/CR/0x85/0xA0
    if line.first() == Some(&b'@') {
        if let Some(i) = line.iter().position(|b| *b == b' ') {
            let mut j = i;
            while j < line.len() && (line[j] == b' ' || line[j] == b'\t') {
                j += 1;
            }
            if j < line.len() && (m::is_ascii_ws(line[j]) || m::is_ambiguous_ws(line[j])) {
                line.insert(j, b'x');
            }
        }
    }
    line
}

fn no_line_break(b: u8) -> bool {
    b != b'\n'
}

fn interesting_byte() -> BoxedStrategy<u8> {
    prop_oneof![
        6 => 0x21u8..0x7f,
        2 => prop::sample::select(vec![b' ', b'\t', b'@', b'+', b'/', b'.', b'%', b'$']),
        2 => 0x80u8..=0xff,
        1 => prop::sample::select(vec![0u8, 0x0b, 0x0c, 0x0d, 0x85, 0xa0, 0xc3, 0xe9, 0xff, 0x7f]),
    ]
    .boxed()
}

fn utf8_text() -> BoxedStrategy<Vec<u8>> {
    prop::collection::vec(
        prop::sample::select(vec!["a", "b", "/", "-", "1", ".", " ", "é", "ß", "💖", "日", "%D", "x y"]),
        1..6,
    )
    .prop_map(|v| v.concat().into_bytes())
    .boxed()
}

pub fn arg_bytes() -> BoxedStrategy<Vec<u8>> {
    prop_oneof![
        5 => prop::sample::select(vec!["/usr/pkg", "bin/foo", "0644", "root", "wheel", "pkg-1.0", "foo>=1.0", "preserve", "a", "/", "echo hi  there "]).prop_map(|s| s.as_bytes().to_vec()),
        3 => utf8_text(),
        2 => prop::collection::vec(interesting_byte(), 1..12),
        // tokens of the library's own source, alone or after ordinary text
        2 => (prop::option::of(utf8_text()), crate::engine::dict::byte_token(no_line_break, b"a")).prop_map(|(pre, t)| [pre.unwrap_or_default(), t].concat()),
        1 => utf8_text().prop_map(|mut v| { v.push(0xf8); v }),
        // a multi-byte character cut short (1, 2 or 3 of its bytes), at the end or in the middle
        2 => (utf8_text(), prop::sample::select(vec![&b"\xc3"[..], b"\xe2\x82", b"\xf0\x9f\x92", b"\xf0\x9f", b"\xf0", b"\xe2", b"\xed\xa0\x80", b"\xc0\x80", b"\xef\xbb\xbf"]), prop::option::of(utf8_text()))
            .prop_map(|(mut v, cut, tail)| { v.extend_from_slice(cut); if let Some(t) = tail { v.extend_from_slice(&t); } v }),
        1 => utf8_text().prop_map(|mut v| { v.extend_from_slice(b"  "); v }),
        // arguments that *begin* with a Unicode white-space character: only leading blanks
        // (space / tab) may be stripped, these are part of the argument
        2 => (prop::sample::select(vec!["\u{3000}", "\u{a0}", "\u{2003}", "\u{2028}", "\u{85}", "\u{1680}", "\u{feff}", "\u{200b}"]), prop::option::of(utf8_text()))
            .prop_map(|(w, rest)| { let mut v = w.as_bytes().to_vec(); if let Some(r) = rest { v.extend_from_slice(&r); } v }),
    ]
    .boxed()
}

fn file_line() -> BoxedStrategy<Vec<u8>> {
    prop_oneof![
        5 => interesting_byte().prop_map(|b| vec![b]),                       // length 1
        3 => prop::collection::vec(interesting_byte(), 2..=2),
        6 => prop::collection::vec(interesting_byte(), 3..40),
        3 => prop::sample::select(vec!["bin/foo", "man/man1/foo.1", "a", "b", "+INSTALL", "share/doc/x y", " leading", "\tx", "lib/libfoo.so.1.0"]).prop_map(|s| s.as_bytes().to_vec()),
        // lines made only of multi-byte Unicode white space are file names like any other
        1 => prop::sample::select(vec!["\u{3000}", "\u{a0}", "\u{2003}\u{2003}", "\u{2028}", "\u{85}", " \u{a0}", "\u{feff}", "\u{feff}bin/foo", "\u{feff}@name x-1", "\u{feff}\u{feff}"]).prop_map(|s| s.as_bytes().to_vec()),
        1 => prop::collection::vec(interesting_byte(), 100..600),
        2 => (prop::option::of(utf8_text()), crate::engine::dict::byte_token(no_line_break, b"a"), prop::option::of(utf8_text())).prop_map(|(pre, t, post)| [pre.unwrap_or_default(), t, post.unwrap_or_default()].concat()),
    ]
    .prop_map(|mut v| {
        // a file line is any line not starting with '@'
        if v.first() == Some(&b'@') {
            v[0] = b'+';
        }
        v
    })
    .boxed()
}

pub fn command_line() -> BoxedStrategy<Vec<u8>> {
    let sep = prop_oneof![
        12 => prop::sample::select(vec![" ", " ", " ", "  ", " \t", "   \t "]).prop_map(String::from),
        1 => crate::engine::gen::interesting_len(300).prop_map(|n| " ".repeat(n.max(1))),
    ];
    prop_oneof![
        // command with argument
        10 => (0usize..COMMANDS.len(), sep, arg_bytes()).prop_map(|(i, s, a)| {
            let mut v = COMMANDS[i].as_bytes().to_vec();
            v.extend_from_slice(s.as_bytes());
            v.extend_from_slice(&a);
            v
        }),
        // command without argument / with blanks only
        4 => (0usize..COMMANDS.len(), prop::sample::select(vec!["", "", " ", "  ", " \t"])).prop_map(|(i, s)| {
            let mut v = COMMANDS[i].as_bytes().to_vec();
            v.extend_from_slice(s.as_bytes());
            v
        }),
    ]
    .boxed()
}

/// lines that are almost always valid (commands obey their argument rule)
fn valid_command_line() -> BoxedStrategy<Vec<u8>> {
    prop::sample::select(vec![
        "@cwd /usr/pkg", "@src /usr/pkg/", "@cd /", "@exec echo hi", "@unexec rm -f %D/x", "@mode", "@mode 0755",
        "@owner", "@owner root", "@group wheel", "@group", "@comment", "@comment  a comment ", "@ignore",
        "@ignore ", "@name pkg-1.0", "@pkgdir share/foo", "@dirrm share/foo", "@display MESSAGE",
        "@pkgdep foo>=1", "@blddep bar-[0-9]*", "@pkgcfl baz<2", "@option preserve", "@cwd \t /opt",
        "@comment \u{e9}", "@name \u{1f496}", "@cwd .", "@src .", "@cd ./", "@cwd ..", "@pkgdir .", "@dirrm .",
    ])
    .prop_map(|s| s.as_bytes().to_vec())
    .boxed()
}

fn unknown_command_line() -> BoxedStrategy<Vec<u8>> {
    prop::sample::select(vec![
        "@", "@foo", "@CWD /x", "@cwd\t/x", "@cwdx /y", "@ cwd /x", "@@cwd /", "@option", "@option  other",
        "@option preserved", "@option preserve ", "@option preserve\r", "@option preserve=no", "@option preserv", "@option PRESERVE", "@option preserve preserve",
        "@ignore x", "@name", "@cwd", "@exec ", "@pkgdep  ", "@dirrm",
        // directives of pkg_install that this library does not support
        "@mtree", "@mtree etc/mtree/BSD.x11.dist", "@srcdir /usr/src", "@end", "@bin x", "@man man/man1/x.1", "@info info/x.info", "@dirrmtry x", "@sample x", "@shell bin/zsh",
    ])
    .prop_map(|s| s.as_bytes().to_vec())
    .boxed()
}

/// a supported command word with one more byte glued on (a letter, a digit, NUL, a high byte):
/// unknown commands, every one of them
fn extended_command_line() -> BoxedStrategy<Vec<u8>> {
    (0usize..COMMANDS.len(), prop::sample::select(vec![b's', b'x', b'e', b'd', b'1', b'_', 0u8, 0xf8, 0xc3, b'@', b'-']), prop::option::of(arg_bytes()), any::<bool>())
        .prop_map(|(i, extra, arg, twice)| {
            let mut v = COMMANDS[i].as_bytes().to_vec();
            v.push(extra);
            if twice {
                v.push(extra);
            }
            if let Some(a) = arg {
                v.push(b' ');
                v.extend_from_slice(&a);
            }
            v
        })
        .boxed()
}

fn blank_line() -> BoxedStrategy<Vec<u8>> {
    prop_oneof![
        12 => prop::sample::select(vec!["", "", " ", "\t", "  \t ", "\r", " \x0b"]).prop_map(|s| s.as_bytes().to_vec()),
        // a blank line of a chosen length (0-700 blanks or tabs)
        1 => (crate::engine::gen::interesting_len(700), 0u8..3).prop_map(|(n, k)| (0..n).map(|i| match k { 0 => b' ', 1 => b'\t', _ => if i % 2 == 0 { b' ' } else { b'\t' } }).collect()),
    ]
    .boxed()
}

fn line(err_weight: u32) -> BoxedStrategy<Vec<u8>> {
    prop_oneof![
        40 => file_line(),
        25 => valid_command_line(),
        err_weight => command_line(),
        err_weight / 2 + 1 => unknown_command_line(),
        err_weight / 3 + 1 => extended_command_line(),
        15 => blank_line(),
        2 => prop::collection::vec(any::<u8>(), 0..24),
    ]
    .prop_map(sanitise)
    .boxed()
}

fn doc_strategy(tier: Tier) -> BoxedStrategy<DocCase> {
    let max = tier.pick(20, 30);
    // mostly error-free documents (so that the entry list is compared), sometimes error-prone
    let lines = prop_oneof![
        40 => prop::collection::vec(line(0), 0..=max),
        10 => prop::collection::vec(line(12), 0..=max),
        // one document in fifty is long
        1 => prop::collection::vec(line(0), 100..400),
    ];
    (lines, any::<bool>())
        .prop_map(|(ls, nl)| DocCase { lines: ls.into_iter().map(B).collect(), final_newline: nl })
        .boxed()
}

fn kind_of(e: &PlistError) -> ErrKind {
    match e {
        PlistError::UnsupportedCommand(_) => ErrKind::UnsupportedCommand,
        PlistError::IncorrectArguments(_) => ErrKind::IncorrectArguments,
        PlistError::Utf8(_) => ErrKind::Utf8,
    }
}

fn same_err(got: &PlistError, want: ErrKind) -> bool {
    want == ErrKind::AnyError || kind_of(got) == want
}

pub fn check_line(l: &[u8]) -> Result<(), String> {
    let got = PlistEntry::from_bytes(l);
    let want = m::parse_line(l);
    match (&got, &want) {
        (Ok(g), Ok(w)) if g == w => Ok(()),
        (Err(g), Err(w)) if same_err(g, *w) => Ok(()),
        _ => Err(format!(
            "PlistEntry::from_bytes({:?}) = {:?}, line model says {:?}",
            B(l.to_vec()),
            got.as_ref().map_err(kind_of),
            want
        )),
    }
}

pub fn check_doc(c: &DocCase, obs: &mut Obs) -> Result<(), String> {
    let doc = c.bytes();
    let lines = m::non_blank_lines(&doc);
    // domain: every non-blank line holds a byte that is white space under no reading
    for l in &lines {
        // (inputs that did not come through the generator - libFuzzer, replay - are held to
        // the same domain: a line the generator's sanitiser would have changed is outside it)
        if l.iter().all(|b| m::is_ascii_ws(*b) || m::is_ambiguous_ws(*b)) || sanitise(l.to_vec()) != *l {
            obs.excluded = true;
            return Ok(());
        }
    }
    let short = lines.iter().any(|l| l.len() <= 2);
    let one = lines.iter().any(|l| l.len() == 1);
    let nonascii_arg = lines.iter().any(|l| l.first() == Some(&b'@') && !l.is_ascii());
    obs.nontrivial = lines.len() >= 3 && (short || nonascii_arg);
    if one {
        obs.class("has-one-byte-line");
    }
    if nonascii_arg {
        obs.class("command-with-non-ascii");
    }
    if !c.final_newline {
        obs.class("no-final-newline");
    }
    if lines.len() != doc.split(|b| *b == b'\n').count() {
        obs.class("has-blank-lines");
    }
    for l in &lines {
        check_line(l)?;
        obs.verdicts += 1;
    }
    let want = m::parse_doc(&doc);
    let got = Plist::from_bytes(&doc);
    obs.verdicts += 1;
    match (&got, &want) {
        (Ok(p), Ok(entries)) => {
            obs.class("all-lines-valid");
            let g = format!("{:?}", p);
            let w = format!("Plist {{ entries: {:?} }}", entries);
            if g != w {
                return Err(format!(
                    "Plist::from_bytes({:?}): entry list differs from one-entry-per-non-blank-line\n   got: {}\n  want: {}",
                    B(doc.clone()),
                    g,
                    w
                ));
            }
            Ok(())
        }
        (Err(e), Err(k)) => {
            obs.class("document-with-error-line");
            // the first failing line decides
            if same_err(e, *k) {
                Ok(())
            } else {
                Err(format!(
                    "Plist::from_bytes({:?}) fails with {:?}, first failing line gives {:?}",
                    B(doc.clone()),
                    kind_of(e),
                    k
                ))
            }
        }
        (Ok(p), Err(k)) => Err(format!(
            "Plist::from_bytes({:?}) accepted ({:?}) a document whose line fails with {:?}",
            B(doc.clone()),
            p,
            k
        )),
        (Err(e), Ok(_)) => Err(format!(
            "Plist::from_bytes({:?}) rejected ({:?}) a document whose lines are all valid",
            B(doc.clone()),
            kind_of(e)
        )),
    }
}

pub fn property() -> Property {
    Property {
        id: "C14",
        rule: "Documents of 0-30 lines joined by LF, final LF present or absent. Lines: file names of length 1, 2, 3-40 over arbitrary bytes (no LF), with leading blanks; each of the 18 commands with absent / blank / ASCII / UTF-8 / non-UTF-8 / trailing-blank arguments and 1-several blanks or tabs before the argument; unknown and malformed commands; blank lines (empty, spaces, tabs, CR, VT); raw random bytes. Oracle: M-plist line model (entry kind, argument bytes exactly, error kind) per line via PlistEntry::from_bytes, and the whole entry list of Plist::from_bytes (compared through the derived Debug rendering with the list the model builds from public enum constructors); a document with an invalid line must fail with the first failing line's error kind. Non-trivial = at least 3 non-blank lines including one of length <= 2 or a command with a non-ASCII argument. Distinct = distinct documents. Generators also draw, at low weight, tokens from the source-literal dictionary (every string / byte / character literal of the library's own source, collected at build time and filtered by this domain's character class) (as arguments and file lines); strict arguments also end in, or contain, multi-byte characters cut short by 1-3 bytes, surrogates and overlong forms; lines starting with U+FEFF.",
        assumptions: vec![
            "bytes 0x85/0xA0 as the only non-ASCII-whitespace content of a line, and VT/FF/CR/0x85/0xA0 as the first byte of an argument, are outside the generated domain (the statement does not say whether they are white space)",
            "for '@option' with an argument other than 'preserve' any error kind is accepted",
        ],
        streams: vec![random_stream(
            "documents",
            "generated packing lists, line model + whole-document entry list",
            doc_strategy,
            |t| t.pick(100_000, 4_000_000),
            check_doc,
        ), crate::fuzz::replay_stream(),
        ],
        selfcheck: m::selfcheck,
        hang_is_violation: false,
        min_nontrivial_share: 0.05,
        extra: Some(crate::fuzz::extra),
    }
}
