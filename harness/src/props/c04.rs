//! C04 — brace alternation matches exactly the union of its csh-style expansions.

use crate::engine::gen::idx;
use crate::engine::*;
use crate::models::pattern as m;
use pkgsrc::Pattern;
use proptest::prelude::*;
use serde::{Deserialize, Serialize};
use std::collections::BTreeSet;

#[derive(Clone, Debug, Serialize, Deserialize)]
pub struct Case {
    pub pattern: String,
    pub name: String,
    /// how the name was derived: instance | decoy | mutant | other
    pub kind: String,
}

pub const PIECES: [&str; 29] = [
    "a", "b", "c", "d", "-", "1", "2", ".", "*", "?", "[0-9]", ">=", "<", ">", "", "a-", "[a,b]", "[", "]", "[!a-c]", "é", "<=",
    "\\", "-[0-9]*", "+", "_", "٣", "\0", "ü",
];

#[derive(Clone, Debug)]
enum Node {
    Text(String),
    Group(Vec<Vec<Node>>),
}

fn render_seq(seq: &[Node], out: &mut String) {
    for n in seq {
        match n {
            Node::Text(t) => out.push_str(t),
            Node::Group(alts) => {
                out.push('{');
                for (i, a) in alts.iter().enumerate() {
                    if i > 0 {
                        out.push(',');
                    }
                    render_seq(a, out);
                }
                out.push('}');
            }
        }
    }
}

fn text_node() -> BoxedStrategy<Node> {
    // pieces from the pool; one text in eight also takes a token of the library's own source
    fn no_control(c: char) -> bool {
        !c.is_control()
    }
    (prop::collection::vec(0usize..PIECES.len(), 0..3), prop::option::weighted(0.125, (crate::engine::dict::string_token(no_control, "a"), any::<bool>())))
        .prop_map(|(v, tok)| {
            let mut t = v.into_iter().map(|i| PIECES[i]).collect::<String>();
            match tok {
                Some((w, true)) => t.push_str(&w),
                Some((w, false)) => t.insert_str(0, &w),
                None => {}
            }
            Node::Text(t)
        })
        .boxed()
}

fn seq_strategy(depth: u32) -> BoxedStrategy<Vec<Node>> {
    let leaf = prop::collection::vec(text_node(), 0..3).boxed();
    leaf.prop_recursive(depth, 24, 3, |inner| {
        let group = prop_oneof![
            6 => prop::collection::vec(inner.clone(), 1..=3).prop_map(Node::Group),
            // 2-5 single-character alternatives (what a hasty optimisation would turn into a set)
            1 => prop::collection::vec(prop::sample::select(vec!["a", "z", "-", "0", "9", ".", "_", "+", "b", "!", "^", "]"]), 2..=5)
                .prop_map(|cs| Node::Group(cs.into_iter().map(|c| vec![Node::Text(c.to_string())]).collect())),
        ];
        prop::collection::vec(prop_oneof![2 => text_node(), 3 => group], 1..=4).boxed()
    })
    .boxed()
}

pub fn pattern_strategy(depth: u32) -> BoxedStrategy<String> {
    (seq_strategy(depth), prop::option::weighted(0.15, (any::<u16>(), any::<u16>(), any::<bool>())))
        .prop_map(|(mut seq, dup)| {
            // now and then one group occurs twice, verbatim (two independent choices that look alike)
            if let Some((i, j, sep)) = dup {
                let groups: Vec<usize> = seq.iter().enumerate().filter(|(_, n)| matches!(n, Node::Group(_))).map(|(k, _)| k).collect();
                if !groups.is_empty() {
                    let g = seq[groups[idx(i, groups.len())]].clone();
                    let at = idx(j, seq.len() + 1);
                    seq.insert(at, g);
                    if sep {
                        seq.insert(at, Node::Text("-".to_string()));
                    }
                }
            }
            let mut s = String::new();
            render_seq(&seq, &mut s);
            s
        })
        .boxed()
}

/// a name that the brace-free pattern text `e` would plausibly match
pub fn instantiate(e: &str, sels: &[u16; 4]) -> String {
    if e.contains(['<', '>']) {
        const VERS: [&str; 8] = ["0", "1", "1.0", "1.5", "2", "10", "1nb1", "0.5"];
        let base = match m::dewey_compile(e) {
            Ok(d) => d.base,
            Err(_) => e.chars().take_while(|c| *c != '<' && *c != '>').collect(),
        };
        return format!("{}-{}", base, VERS[idx(sels[0], VERS.len())]);
    }
    if m::has_glob_meta(e) {
        const STAR: [&str; 9] = ["", "1", "x", "-2.0", "ab", "1.0", "٣.0", "²", "１"];
        const ANY: [&str; 4] = ["a", "1", "-", "é"];
        let mut out = String::new();
        let cs: Vec<char> = e.chars().collect();
        let mut i = 0;
        let mut k = 0usize;
        while i < cs.len() {
            let sel = sels[k % 4].wrapping_add((k as u16).wrapping_mul(7919));
            match cs[i] {
                '*' => {
                    out.push_str(STAR[idx(sel, STAR.len())]);
                    k += 1;
                    i += 1;
                }
                '?' => {
                    out.push_str(ANY[idx(sel, ANY.len())]);
                    k += 1;
                    i += 1;
                }
                '[' if cs[i..].starts_with(&['[', '0', '-', '9', ']']) => {
                    out.push((b'0' + (idx(sel, 10) as u8)) as char);
                    k += 1;
                    i += 5;
                }
                c => {
                    out.push(c);
                    i += 1;
                }
            }
        }
        return out;
    }
    e.to_string()
}

fn strip_braces(s: &str) -> String {
    s.chars().filter(|c| *c != '{' && *c != '}').collect()
}

/// strings reachable by *wrong* expanders (decoys); true expansions are removed by the caller
pub fn wrong_expansions(p: &str) -> BTreeSet<String> {
    let mut out = BTreeSet::new();
    // (a) pair any '{' with the first following '}', split at every comma, recurse while balanced
    let mut work = vec![(p.to_string(), 0u32)];
    let mut seen = BTreeSet::new();
    while let Some((q, d)) = work.pop() {
        if out.len() > 400 || seen.len() > 400 {
            break;
        }
        if !q.contains(['{', '}']) {
            out.insert(q);
            continue;
        }
        if d > 8 || !m::balanced(&q) {
            continue;
        }
        for (i, _) in q.match_indices('{') {
            let (first, rest) = q.split_at(i);
            if let Some(n) = rest.find('}') {
                let (inner, last) = rest.split_at(n + 1);
                for alt in inner[1..inner.len() - 1].split(',') {
                    let r = format!("{}{}{}", first, alt, last);
                    // a half-expanded string (one group substituted, others left) is a decoy too
                    if d == 0 && r.contains(['{', '}']) && out.len() < 200 {
                        out.insert(r.clone());
                    }
                    if seen.insert(r.clone()) {
                        work.push((r, d + 1));
                    }
                }
            }
        }
    }
    // (b) pair the first '{' with the last '}'
    if let (Some(i), Some(j)) = (p.find('{'), p.rfind('}')) {
        if i < j {
            for alt in p[i + 1..j].split(',') {
                out.insert(strip_braces(&format!("{}{}{}", &p[..i], alt, &p[j + 1..])));
            }
        }
    }
    // (c) empty alternatives dropped
    let mut q = p.to_string();
    for _ in 0..4 {
        q = q.replace("{,", "{").replace(",}", "}").replace(",,", ",");
    }
    if q != p && m::balanced(&q) && m::count(&q) <= 256 {
        out.extend(m::expand(&q));
    }
    // (d) only the first alternative of every group / braces ignored
    out.insert(strip_braces(p));
    out
}

fn mutate(s: &str, kind: u8, sel: u16) -> String {
    let mut cs: Vec<char> = s.chars().collect();
    let k = idx(sel, cs.len().max(1));
    match kind % 4 {
        0 if !cs.is_empty() => {
            cs.remove(k);
        }
        1 => cs.insert(idx(sel, cs.len() + 1), ['a', '1', '-', '.', '٣', '²', '\\', ','][(sel % 8) as usize]),
        2 if !cs.is_empty() => cs[k] = if cs[k] == 'a' { 'b' } else { 'a' },
        _ => cs.push('x'),
    }
    cs.into_iter().collect()
}

fn damage(p: &str, kind: u8, sel: u16) -> String {
    let mut cs: Vec<char> = p.chars().collect();
    let braces: Vec<usize> = cs.iter().enumerate().filter(|(_, c)| **c == '{' || **c == '}').map(|(i, _)| i).collect();
    match kind % 4 {
        0 if !braces.is_empty() => {
            cs.remove(braces[idx(sel, braces.len())]);
        }
        1 => cs.insert(idx(sel, cs.len() + 1), if sel % 2 == 0 { '{' } else { '}' }),
        2 if !braces.is_empty() => {
            let k = braces[idx(sel, braces.len())];
            cs[k] = if cs[k] == '{' { '}' } else { '{' };
        }
        _ => {
            let k = idx(sel, cs.len() + 1);
            cs.insert(k, '}');
            cs.insert(k, '{');
        }
    }
    cs.into_iter().collect()
}

pub fn limits(tier: Tier) -> (usize, u128) {
    // (max groups, max expansions); matching is linear in the number of expansions, so the
    // number of groups is bounded only to keep patterns readable
    (120, tier.pick(256, 1024))
}

/// patterns with many groups on one expansion path, or one group with many alternatives
fn wide_or_deep() -> BoxedStrategy<String> {
    prop_oneof![
        // p{a}{b}{c}... : 30-100 single-alternative groups in a row, one of them two-way
        (30usize..100, any::<u16>()).prop_map(|(n, s)| {
            let two = idx(s, n);
            let mut p = String::from("p");
            for i in 0..n {
                if i == two { p.push_str("{x,y}"); } else { p.push_str("{a}"); }
            }
            p.push_str("-1");
            p
        }),
        // {{{{foo}}}}-[0-9]* : 30-100 nested groups
        (30usize..100).prop_map(|n| format!("{}foo,bar{}-[0-9]*", "{".repeat(n), "}".repeat(n))),
        // {p0,p1,...,pN}-[0-9]* : one group with 20-90 alternatives
        (20usize..90).prop_map(|n| format!("{{{}}}-[0-9]*", (0..n).map(|i| format!("p{}", i)).collect::<Vec<_>>().join(","))),
    ]
    .boxed()
}

fn case_strategy(tier: Tier) -> BoxedStrategy<Case> {
    let (max_groups, max_count) = limits(tier);
    let pat = prop_oneof![
        16 => pattern_strategy(3),
        1 => wide_or_deep(),
        2 => (pattern_strategy(3), any::<u8>(), any::<u16>()).prop_map(|(p, k, s)| damage(&p, k, s)),
        1 => prop::collection::vec(prop::sample::select(vec!['{', '}', ',', 'a']), 0..10).prop_map(|v| v.into_iter().collect::<String>()),
    ];
    (pat, 0u8..10, any::<[u16; 4]>(), any::<u16>(), any::<u8>())
        .prop_map(move |(pattern, kind, sels, pick, mk)| {
            if !m::balanced(&pattern) || m::groups(&pattern) > max_groups || m::count(&pattern) > max_count {
                // out-of-bounds patterns are kept only for the compile check (name unused)
                return Case { pattern, name: "a-1".into(), kind: "other".into() };
            }
            let exps = m::expand(&pattern);
            let truth: BTreeSet<String> = exps.iter().cloned().collect();
            let inst = |e: &str| instantiate(e, &sels);
            match kind {
                0..=3 => {
                    let e = &exps[idx(pick, exps.len())];
                    Case { name: inst(e), pattern, kind: "instance".into() }
                }
                4..=6 => {
                    let decoys: Vec<String> =
                        wrong_expansions(&pattern).into_iter().filter(|d| !truth.contains(d)).collect();
                    if decoys.is_empty() {
                        let e = &exps[idx(pick, exps.len())];
                        Case { name: mutate(&inst(e), mk, pick), pattern, kind: "mutant".into() }
                    } else {
                        let d = &decoys[idx(pick, decoys.len())];
                        Case { name: inst(d), pattern, kind: "decoy".into() }
                    }
                }
                7..=8 => {
                    let e = &exps[idx(pick, exps.len())];
                    Case { name: mutate(&inst(e), mk, pick), pattern, kind: "mutant".into() }
                }
                _ => Case { pattern, name: ["", "a", "a-1", "b-2", "ab-1.0"][(pick % 5) as usize].into(), kind: "other".into() },
            }
        })
        .boxed()
}

fn depth(p: &str) -> usize {
    let (mut d, mut mx) = (0usize, 0usize);
    for c in p.chars() {
        if c == '{' {
            d += 1;
            mx = mx.max(d);
        } else if c == '}' {
            d = d.saturating_sub(1);
        }
    }
    mx
}

/// groups / expansions a case may have and still be evaluated (guards replay as well)
const HARD_GROUPS: usize = 120;
const HARD_COUNT: u128 = 1024;

pub fn check(c: &Case, obs: &mut Obs) -> Result<(), String> {
    let p = c.pattern.as_str();
    if !p.contains(['{', '}']) {
        obs.excluded = true;
        return Ok(());
    }
    let bal = m::balanced(p);
    let compiled = Pattern::new(p);
    obs.verdicts += 1;
    if compiled.is_ok() != bal {
        return Err(format!(
            "Pattern::new({:?}) is {} but braces are {}",
            p,
            if compiled.is_ok() { "Ok" } else { "Err" },
            if bal { "properly nested" } else { "not properly nested" }
        ));
    }
    if !bal {
        obs.class("unbalanced-rejected");
        obs.nontrivial = m::groups(p) >= 1;
        return Ok(());
    }
    if m::groups(p) > HARD_GROUPS || m::count(p) > HARD_COUNT {
        obs.class("compile-only(out-of-bounds)");
        return Ok(());
    }
    let pat = compiled.unwrap();
    let exps = m::expand(p);
    let mut want = false;
    let mut via = None;
    for e in &exps {
        if let Ok(ep) = Pattern::new(e) {
            if ep.matches(&c.name) {
                want = true;
                via = Some(e.clone());
                break;
            }
        }
    }
    let got = pat.matches(&c.name);
    obs.verdicts += 1;
    if got != want {
        return Err(match via {
            Some(e) => format!(
                "Pattern {:?} does not match {:?} although its expansion {:?} does",
                p, c.name, e
            ),
            None => format!(
                "Pattern {:?} matches {:?} but none of its {} expansions {:?} does",
                p,
                c.name,
                exps.len(),
                exps.iter().take(12).collect::<Vec<_>>()
            ),
        });
    }
    let d = depth(p);
    obs.nontrivial =
        (d >= 2 || m::groups(p) >= 2) && exps.len() >= 2 && (c.kind == "instance" || c.kind == "decoy");
    obs.class(if want { "match" } else { "no-match" });
    match c.kind.as_str() {
        "instance" => obs.class("name=instance-of-expansion"),
        "decoy" => obs.class("name=decoy-from-wrong-expander"),
        "mutant" => obs.class("name=mutated-instance"),
        _ => obs.class("name=other"),
    }
    if d >= 2 {
        obs.class("nested");
    }
    if p.contains("{}") || p.contains("{,") || p.contains(",}") || p.contains(",,") {
        obs.class("empty-alternative");
    }
    if exps.iter().any(|e| e.contains(['<', '>'])) {
        obs.class("dewey-expansion");
    }
    if exps.iter().any(|e| m::has_glob_meta(e)) {
        obs.class("glob-expansion");
    }
    Ok(())
}

pub fn property() -> Property {
    Property {
        id: "C04",
        rule: "Patterns from the csh brace grammar (nesting depth <= 3, <= 4 items per level, 1-3 alternatives incl. empty ones, text pieces a b c d - 1 2 . * ? [0-9] [a,b] [!a-c] [ ] é >= <= < > and empty), bounded to <= 256 expansions (thorough: 1024); one pattern in ~20 has 30-100 groups on a single expansion path (in a row or nested) or one group with 20-90 alternatives; unbalanced variants by deleting / inserting / flipping one brace and random strings over { } , a. Names: (i) an instance of a randomly chosen true expansion (plain -> itself, glob -> instantiated, dewey -> base-version around the bounds); (ii) decoys = instances of strings produced by deliberately wrong expanders (first-'}' pairing with all-depth comma split, first-'{'/last-'}' pairing, dropped empty alternatives, braces ignored) that are not true expansions; (iii) one-character mutations of (i). Oracle: Pattern::new is Ok iff braces are properly nested (M-brace balanced); when Ok, matches(name) iff some string of M-brace expand(pattern) compiles and matches name as a pattern in its own right. Non-trivial = nesting depth >= 2 or >= 2 groups, >= 2 expansions, name of kind (i) or (ii). Distinct = distinct (pattern, name). Generators also draw, at low weight, tokens from the source-literal dictionary (every string / byte / character literal of the library's own source, collected at build time and filtered by this domain's character class); pieces include a backslash, '-[0-9]*', '+', '_' and a non-ASCII digit; instances fill '*' also with non-ASCII digits.",
        assumptions: vec![
            "brace-free expansions are judged by the library itself ('matches as a pattern in its own right'); that machinery is checked independently by C02/C05",
            "patterns above the group/expansion bound are only checked for compile-ability",
        ],
        streams: vec![random_stream(
            "patterns",
            "grammar-generated brace patterns with instance / decoy / mutant names",
            case_strategy,
            |t| t.pick(100_000, 4_000_000),
            check,
        ), crate::fuzz::replay_stream(),
        ],
        selfcheck: m::selfcheck,
        hang_is_violation: false,
        min_nontrivial_share: 0.03,
        extra: Some(crate::fuzz::extra),
    }
}
