//! C03 — version order is a total preorder; the four operators are mutually consistent.
//! Laws on the implementation's own verdicts; no reference model is involved.

use crate::engine::gen::idx;
use crate::engine::*;
use crate::models::dewey::{Op, OPS};
use crate::props::vergen;
use pkgsrc::Pattern;
use proptest::prelude::*;
use serde::{Deserialize, Serialize};

#[derive(Clone, Debug, Serialize, Deserialize)]
pub struct Triple {
    pub a: String,
    pub b: String,
    pub c: String,
}

fn clean(s: &str) -> String {
    let t: String = s.chars().filter(|c| !['-', '<', '>', '{', '}'].contains(c)).collect();
    t.trim_start_matches('=').to_string()
}

/// an edit that should not change the version's place in the order, or moves it up a little
fn derive(tokens: &[String], kind: u8, sel: u16) -> Vec<String> {
    let mut v = tokens.to_vec();
    match kind % 20 {
        // 18: the last digit of a numeric token changed; 19: many zero components appended
        18 => {
            let nums: Vec<usize> = v.iter().enumerate().filter(|(_, t)| !t.is_empty() && t.chars().all(|c| c.is_ascii_digit())).map(|(i, _)| i).collect();
            if !nums.is_empty() {
                let k = nums[idx(sel, nums.len())];
                let mut b = v[k].clone().into_bytes();
                let l = b.len() - 1;
                b[l] = b'0' + ((b[l] - b'0') + 1 + (sel % 9) as u8) % 10;
                v[k] = String::from_utf8(b).unwrap();
            }
        }
        19 => v.push(format!("{}{}", ".0".repeat(4 + (sel % 8) as usize), if sel % 2 == 0 { ".1" } else { "" })),
        // (12-17: edits that move the version a little: a bare modifier at the end, the last
        // token exchanged for a modifier or dropped, text behind the revision, a small number)
        12 => v.push(vergen::MODIFIERS[idx(sel, 5)].into()),
        13 => {
            v.pop();
            v.push(vergen::MODIFIERS[idx(sel, 5)].into());
        }
        14 => {
            v.pop();
        }
        15 => v.push(format!("nb{}.{}", sel % 3, sel % 7)),
        16 => v.push(((sel % 3) + 1).to_string()),
        17 => {
            let k = idx(sel, v.len() + 1);
            v.insert(k, vergen::MODIFIERS[(sel % 5) as usize].into());
        }
        0 => v.push(".0".into()),
        1 => v.push("_0".into()),
        2 => v.push("pl".into()),
        3 => v.push("nb0".into()),
        4 => v.push(".".into()),
        5 => {
            // leading zero on a numeric token
            let nums: Vec<usize> = v
                .iter()
                .enumerate()
                .filter(|(_, t)| !t.is_empty() && t.chars().all(|c| c.is_ascii_digit()))
                .map(|(i, _)| i)
                .collect();
            if !nums.is_empty() {
                let k = nums[idx(sel, nums.len())];
                v[k] = format!("0{}", v[k]);
            }
        }
        6 => {
            if !v.is_empty() {
                let k = idx(sel, v.len());
                v[k] = v[k].to_ascii_uppercase();
            }
        }
        7 => v.push("nb1".into()),
        8 => v.push(".1".into()),
        9 => v.push("a".into()),
        10 => v.insert(idx(sel, v.len() + 1), "é".into()),
        _ => {}
    }
    v
}

fn arbitrary_text() -> BoxedStrategy<String> {
    prop_oneof![
        3 => prop::collection::vec(any::<char>(), 0..12).prop_map(|v| v.into_iter().collect::<String>()),
        2 => prop::collection::vec(prop::sample::select(vec!['1', '0', '.', 'a', 'n', 'b', 'r', 'c', '\u{0}', '\n', '\t', ' ', '_', 'é', '١', 'Z']), 0..40).prop_map(|v| v.into_iter().collect::<String>()),
        1 => prop::collection::vec(0x20u8..0x7f, 150..220).prop_map(|v| String::from_utf8(v).unwrap()),
    ]
    .boxed()
}

fn long_digits() -> BoxedStrategy<String> {
    (19usize..=40, any::<u64>(), any::<u64>(), 0u8..4)
        .prop_map(|(l, a, b, lead)| {
            let mut s = crate::engine::gen::digits(l, a, b);
            if lead == 0 {
                s = format!("9{}", &s[1..]);
            }
            s
        })
        .boxed()
}

fn base_tokens() -> BoxedStrategy<Vec<String>> {
    prop_oneof![
        8 => vergen::tokens(8),
        1 => prop::collection::vec(vergen::token(), 20..60),
        2 => (vergen::tokens(4), arbitrary_text(), any::<u16>()).prop_map(|(mut v, t, s)| { let k = idx(s, v.len() + 1); v.insert(k, t); v }),
        2 => (vergen::tokens(4), long_digits(), any::<u16>()).prop_map(|(mut v, t, s)| { let k = idx(s, v.len() + 1); v.insert(k, t); v }),
        1 => arbitrary_text().prop_map(|t| vec![t]),
        // a version of a chosen, possibly very large, number of components
        1 => (crate::engine::gen::interesting_len(1300), prop::sample::select(vec!["1.", "0.", ".0", "0", "a"]), vergen::tokens(3)).prop_map(|(n, unit, mut tail)| {
            let mut v = vec![unit.repeat(n)];
            v.append(&mut tail);
            v
        }),
    ]
    .boxed()
}

fn triple_strategy(_t: Tier) -> BoxedStrategy<Triple> {
    (
        base_tokens(),
        prop::collection::vec((any::<u8>(), any::<u16>()), 0..3),
        prop::collection::vec((any::<u8>(), any::<u16>()), 0..3),
        prop::option::weighted(0.15, base_tokens()),
        0u8..6,
    )
        .prop_map(|(a, eb, ec, indep, perm)| {
            let mut b = a.clone();
            for (k, s) in &eb {
                b = derive(&b, *k, *s);
            }
            // C continues from B so that chains A <= B <= C are common
            let mut c = b.clone();
            for (k, s) in &ec {
                c = derive(&c, *k, *s);
            }
            if let Some(i) = indep {
                c = i;
            }
            let (a, b, c) = (clean(&a.concat()), clean(&b.concat()), clean(&c.concat()));
            let v = match perm {
                0 => [a, b, c],
                1 => [a, c, b],
                2 => [b, a, c],
                3 => [b, c, a],
                4 => [c, a, b],
                _ => [c, b, a],
            };
            let [a, b, c] = v;
            Triple { a, b, c }
        })
        .boxed()
}

fn v(x: &str, op: Op, y: &str) -> Result<bool, String> {
    let pat = format!("p{}{}", op.text(), y);
    let p = Pattern::new(&pat).map_err(|e| format!("Pattern::new({:?}) failed: {}", pat, e))?;
    Ok(p.matches(&format!("p-{}", x)))
}

pub fn check(t: &Triple, obs: &mut Obs) -> Result<(), String> {
    let xs = [t.a.as_str(), t.b.as_str(), t.c.as_str()];
    for s in xs {
        if s.contains(['-', '<', '>', '{', '}']) || s.starts_with('=') {
            obs.excluded = true;
            return Ok(());
        }
    }
    // verdict matrix m[i][j][op]
    let mut m = [[[false; 4]; 3]; 3];
    for i in 0..3 {
        for j in 0..3 {
            for (k, op) in OPS.iter().enumerate() {
                m[i][j][k] = v(xs[i], *op, xs[j])?;
                obs.verdicts += 1;
            }
        }
    }
    const LT: usize = 0;
    const LE: usize = 1;
    const GT: usize = 2;
    const GE: usize = 3;
    let mut tie_diff_text = false;
    let mut strict_chain = false;
    for i in 0..3 {
        for j in 0..3 {
            let (lt, le, gt, ge) = (m[i][j][LT], m[i][j][LE], m[i][j][GT], m[i][j][GE]);
            let ctx = || format!("X={:?} Y={:?}: X<Y={} X<=Y={} X>Y={} X>=Y={}", xs[i], xs[j], lt, le, gt, ge);
            let n = [lt, gt, le && ge].iter().filter(|b| **b).count();
            if n != 1 {
                return Err(format!("trichotomy violated ({} of <, >, tie hold): {}", n, ctx()));
            }
            if le == gt || ge == lt {
                return Err(format!("operator duality violated: {}", ctx()));
            }
            if i == j && !(le && ge) {
                return Err(format!("reflexivity violated: {}", ctx()));
            }
            if lt != m[j][i][GT] || le != m[j][i][GE] {
                return Err(format!(
                    "converse violated: {} but Y>X={} Y>=X={}",
                    ctx(),
                    m[j][i][GT],
                    m[j][i][GE]
                ));
            }
            if i != j && le && ge && xs[i] != xs[j] {
                tie_diff_text = true;
            }
        }
    }
    for i in 0..3 {
        for j in 0..3 {
            for k in 0..3 {
                if m[i][j][LE] && m[j][k][LE] {
                    if !m[i][k][LE] {
                        return Err(format!(
                            "transitivity violated: {:?} <= {:?} and {:?} <= {:?} but not {:?} <= {:?}",
                            xs[i], xs[j], xs[j], xs[k], xs[i], xs[k]
                        ));
                    }
                    if i != j && j != k && i != k && (m[i][j][LT] || m[j][k][LT]) {
                        strict_chain = true;
                        if !m[i][k][LT] {
                            return Err(format!(
                                "transitivity violated: {:?} <= {:?} <= {:?} with a strict step but not {:?} < {:?}",
                                xs[i], xs[j], xs[k], xs[i], xs[k]
                            ));
                        }
                    }
                }
            }
        }
    }
    // two-bound pattern == conjunction of its halves, for every assignment of roles
    for lo in 0..3 {
        for hi in 0..3 {
            for mid in 0..3 {
                for (o1, k1) in [(Op::Gt, GT), (Op::Ge, GE)] {
                    for (o2, k2) in [(Op::Lt, LT), (Op::Le, LE)] {
                        let pat = format!("p{}{}{}{}", o1.text(), xs[lo], o2.text(), xs[hi]);
                        let p = Pattern::new(&pat)
                            .map_err(|e| format!("Pattern::new({:?}) failed: {}", pat, e))?;
                        let got = p.matches(&format!("p-{}", xs[mid]));
                        let want = m[mid][lo][k1] && m[mid][hi][k2];
                        obs.verdicts += 1;
                        if got != want {
                            return Err(format!(
                                "two-bound pattern {:?} on 'p-{}' = {}, but its halves give {} and {}",
                                pat, xs[mid], got, m[mid][lo][k1], m[mid][hi][k2]
                            ));
                        }
                    }
                }
            }
        }
    }
    let different = (xs[0] != xs[1]) as u8 + (xs[1] != xs[2]) as u8 + (xs[0] != xs[2]) as u8;
    obs.nontrivial = different >= 2 && (tie_diff_text || strict_chain);
    if tie_diff_text {
        obs.class("tie-with-different-text");
    }
    if strict_chain {
        obs.class("strict-transitivity-antecedent");
    }
    if xs.iter().any(|s| !crate::models::dewey::numbers_in_domain(s)) {
        obs.class("digit-run-over-18");
    }
    if xs.iter().any(|s| !s.is_ascii()) {
        obs.class("non-ascii");
    }
    Ok(())
}

/// triples around a magnitude: two short versions whose one number differs slightly and a long
/// (many-component) version in between
fn enumerate_magnitudes(_t: Tier) -> Box<dyn Iterator<Item = Triple>> {
    let ns = crate::engine::gen::magnitude_neighbours(i64::MAX as u64);
    let mut out = vec![];
    for w in ns.windows(3) {
        let (x, y, z) = (w[0], w[1], w[2]);
        for (a, b, c) in [
            (format!("1.{}", x), format!("1.{}.0.0.0.0.0.0.0.1", x), format!("1.{}", y)),
            (format!("1.{}", x), format!("1.{}.0.0.0.0.0.0.0.1", y), format!("1.{}", z)),
            (format!("{}", y), format!("{}.0rc1", y), format!("{}", x)),
            (format!("1.0nb{}", x), format!("1.0.0.0.0.0.0.0.0.0nb{}", y), format!("1.0nb{}", z)),
        ] {
            out.push(Triple { a, b, c });
        }
    }
    Box::new(out.into_iter())
}

pub fn property() -> Property {
    Property {
        id: "C03",
        rule: "Triples (A,B,C) of version strings over arbitrary text minus the five characters that cannot be on both sides ('-' '<' '>' '{' '}'): the C01 token generator plus arbitrary Unicode, control characters, 19-40-digit runs and 150-220-character strings; B and C are derived from A by order-preserving edits (1 <-> 1.0 <-> 1_0 <-> 1pl <-> 1nb0 <-> 01, case change, ignorable character) or small increases (nb1, .1, letter), C usually continues from B, then the three are permuted. Oracle: algebraic laws on the library's own verdicts v(X,op,Y) = Pattern('p'+op+Y).matches('p-'+X): trichotomy, duality, reflexivity, converse, transitivity of <= (and strictness propagation) over all 27 index triples, and two-bound = conjunction of halves for all 27 role assignments x 4 operator pairs. Non-trivial = at least two of the three strings differ AND (two different strings tie, or a transitivity antecedent with a strict step holds). Distinct = distinct triples. Generators also draw, at low weight, tokens from the source-literal dictionary (every string / byte / character literal of the library's own source, collected at build time and filtered by this domain's character class) (through the C01 token generator, incl. chosen-count long prefixes).",
        assumptions: vec!["no reference model: the laws are checked on the implementation's own verdicts"],
        streams: vec![random_stream(
            "triples",
            "correlated triples, all laws",
            triple_strategy,
            |t| t.pick(80_000, 1_500_000),
            check,
        ),
            enumerated_stream("magnitudes", "two versions whose one number lies next to a 2^k / 10^k and a many-component version in between", enumerate_magnitudes, check),
            crate::fuzz::replay_stream(),
        ],
        selfcheck: || Ok(()),
        hang_is_violation: false,
        min_nontrivial_share: 0.05,
        extra: Some(crate::fuzz::extra),
    }
}
