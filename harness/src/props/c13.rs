//! C13 — digests equal the standard algorithms for every input and every read pattern.

use crate::engine::*;
use crate::models::hash::{self as m, Alg, ALGS};
use pkgsrc::digest::{Digest, DigestError};
use proptest::prelude::*;
use serde::{Deserialize, Serialize};
use std::io::{self, Read};
use std::str::FromStr;

#[derive(Clone, Debug, Serialize, Deserialize)]
pub enum Step {
    /// deliver at most this many bytes
    Chunk(u32),
    /// fail this read call with ErrorKind::Interrupted (must be transparent)
    Interrupted,
    /// fail this read call with a hard error of kind KINDS[k % KINDS.len()] (every kind except
    /// Interrupted is an error to be returned)
    Error(u8),
}

#[derive(Clone, Debug, Serialize, Deserialize)]
pub struct Case {
    pub data: B,
    pub schedule: Vec<Step>,
    /// chunk size used once the schedule is exhausted
    pub tail_chunk: u32,
}

pub const KINDS: [io::ErrorKind; 12] = [
    io::ErrorKind::Other,
    io::ErrorKind::UnexpectedEof,
    io::ErrorKind::BrokenPipe,
    io::ErrorKind::PermissionDenied,
    io::ErrorKind::WouldBlock,
    io::ErrorKind::TimedOut,
    io::ErrorKind::ConnectionReset,
    io::ErrorKind::InvalidData,
    io::ErrorKind::InvalidInput,
    io::ErrorKind::NotFound,
    io::ErrorKind::WriteZero,
    io::ErrorKind::OutOfMemory,
];

fn kind_of(k: u8) -> io::ErrorKind {
    KINDS[k as usize % KINDS.len()]
}

pub struct SchedReader<'a> {
    data: &'a [u8],
    pos: usize,
    steps: std::slice::Iter<'a, Step>,
    tail: usize,
    pub reads: usize,
    pub short_reads: usize,
    pub interrupted: usize,
    pub hard_error: Option<io::ErrorKind>,
}

impl<'a> SchedReader<'a> {
    pub fn new(c: &'a Case) -> Self {
        SchedReader {
            data: &c.data.0,
            pos: 0,
            steps: c.schedule.iter(),
            tail: (c.tail_chunk as usize).max(1),
            reads: 0,
            short_reads: 0,
            interrupted: 0,
            hard_error: None,
        }
    }
}

impl Read for SchedReader<'_> {
    fn read(&mut self, buf: &mut [u8]) -> io::Result<usize> {
        self.reads += 1;
        if buf.is_empty() {
            return Ok(0);
        }
        let n = match self.steps.next() {
            Some(Step::Interrupted) => {
                self.interrupted += 1;
                return Err(io::Error::new(io::ErrorKind::Interrupted, "injected EINTR"));
            }
            Some(Step::Error(k)) => {
                let kind = kind_of(*k);
                self.hard_error = Some(kind);
                return Err(io::Error::new(kind, "injected I/O error"));
            }
            Some(Step::Chunk(n)) => (*n as usize).max(1),
            None => self.tail,
        };
        let n = n.min(buf.len()).min(self.data.len() - self.pos);
        if n < buf.len() && n < self.data.len() - self.pos {
            self.short_reads += 1;
        }
        buf[..n].copy_from_slice(&self.data[self.pos..self.pos + n]);
        self.pos += n;
        Ok(n)
    }
}

fn to_digest(a: Alg) -> Digest {
    match a {
        Alg::Blake2s => Digest::BLAKE2s,
        Alg::Md5 => Digest::MD5,
        Alg::Rmd160 => Digest::RMD160,
        Alg::Sha1 => Digest::SHA1,
        Alg::Sha256 => Digest::SHA256,
        Alg::Sha512 => Digest::SHA512,
    }
}

pub const BOUNDARY_LENGTHS: [usize; 22] =
    [0, 1, 55, 56, 57, 63, 64, 65, 111, 112, 119, 120, 127, 128, 129, 8191, 8192, 8193, 16384, 32768, 65536, 131072];

fn data_strategy(tier: Tier) -> BoxedStrategy<Vec<u8>> {
    let max = tier.pick(20_000usize, 40_960usize);
    let byte = prop_oneof![3 => any::<u8>(), 1 => Just(b'\n'), 1 => Just(b'a')];
    let patch_line = prop::sample::select(vec![
        &b""[..], b"x", b"+added line", b"-removed", b"$NetBSD$", b"$NetBSD: patch-aa,v 1.1 2024/01/01 joe Exp $",
        b"# $NetBSD: a,v 1.1 $ trailing", b"$NetBS", b"NetBSD", b"$NetBSDx", b"$ NetBSD", b"\r", b"@@ -1,2 +1,3 @@",
        b"\xff\xfe binary \x00", b"$NetBS$NetBSD", b"--- a/file.orig", b"+++ b/file",
        // the marker in another letter case is not the marker
        b"$NETBSD$", b"$netbsd: x $", b"+CPPFLAGS+= -I$NETBSDSRCDIR/sys", b"$NetBsD", b"$nETbsd",
        b"dos line\r", b"$NetBSD$\r", b"a\rb",
        // the marker on a line that is not valid UTF-8
        b"$NetBSD: x,v 1.1 j\xf6rg Exp $", b"\x80$NetBSD", b"$NetBSD\xc3", b"\xff $NetBSD$ \xfe", b"$NetBSD\xed\xa0\x80",
        // the bare marker, alone and at either end of a line
        b"$NetBSD", b"$NetBSD", b"x $NetBSD", b"$NetBSD x", b"$", b"$N", b"$NetBS", b"NetBSD lacks this", b"$$NetBSD",
    ]);
    let patch = (
        prop::collection::vec(patch_line, 0..30),
        any::<bool>(),
        prop::option::weighted(0.6, (prop_oneof![2 => 8170usize..8200, 2 => 0usize..9000, 1 => 1000usize..1050, 1 => 4080usize..4110, 1 => 16370usize..16400], prop::sample::select(vec![&b"$NetBSD$"[..], b"x$NetBSD: y $", b"$NetBS", b"plain", b"$NetBSD"]))),
    )
        .prop_map(|(lines, final_nl, pad)| {
            let mut v = vec![];
            if let Some((at, marker)) = pad {
                // filler lines so that `marker` starts near offset `at` (BufReader / copy buffer edge)
                while v.len() + 65 < at {
                    v.extend_from_slice(&[b'f'; 63]);
                    v.push(b'\n');
                }
                while v.len() + 1 < at {
                    v.push(b'g');
                }
                v.push(b'\n');
                v.extend_from_slice(marker);
                v.push(b'\n');
            }
            for (i, l) in lines.iter().enumerate() {
                if i > 0 || !v.is_empty() {
                    if v.last() != Some(&b'\n') {
                        v.push(b'\n');
                    }
                }
                v.extend_from_slice(l);
            }
            if final_nl {
                v.push(b'\n');
            }
            v
        });
    let long_line = (1500usize..6000, prop::sample::select(vec![&b"$NetBSD$"[..], b"$NetBSD", b"$NetBS", b" $NetBSD: x $ "]), 0usize..300, any::<bool>())
        .prop_map(|(n, marker, tail, nl)| {
            // one line of several KiB with the marker deep inside (and text after it)
            let mut v: Vec<u8> = b"short first line\n".to_vec();
            v.extend((0..n).map(|i| b"abcdefghij"[i % 10]));
            v.extend_from_slice(marker);
            v.extend((0..tail).map(|i| b"0123456789"[i % 10]));
            if nl {
                v.extend_from_slice(b"\nlast line\n");
            }
            v
        });
    prop_oneof![
        1 => long_line,
        // lengths concentrated on block boundaries +- 1
        4 => (prop_oneof![20 => 0usize..18, 1 => 18usize..BOUNDARY_LENGTHS.len()], 0usize..3, any::<u8>()).prop_flat_map(move |(i, d, fill)| {
            let n = (BOUNDARY_LENGTHS[i] + d).saturating_sub(1);
            prop_oneof![
                1 => Just(vec![fill; n]),
                1 => prop::collection::vec(any::<u8>(), n..=n),
            ]
        }),
        3 => patch,
        2 => prop::collection::vec(byte, 0..300),
        1 => (1usize..max, any::<u8>(), any::<u8>()).prop_map(|(n, a, b)| (0..n).map(|i| if i % 61 == 60 { b'\n' } else { a.wrapping_add((i as u8).wrapping_mul(b)) }).collect()),
        1 => "[ -~é€\n]{0,80}".prop_map(|s| s.into_bytes()),
    ]
    .boxed()
}

fn schedule_strategy() -> BoxedStrategy<(Vec<Step>, u32)> {
    let chunk = prop_oneof![
        3 => Just(1u32),
        3 => 1u32..18,
        2 => 1u32..9000,
        1 => Just(8192u32),
        1 => Just(7u32),
    ];
    let step = prop_oneof![8 => chunk.clone().prop_map(Step::Chunk), 1 => Just(Step::Interrupted)];
    // one schedule in twelve has a burst of a chosen number (0-300) of Interrupted in a row
    let steps = (prop::collection::vec(step, 0..40), prop::option::weighted(0.08, (any::<u16>(), crate::engine::gen::interesting_len(300)))).prop_map(|(mut v, burst)| {
        if let Some((pos, n)) = burst {
            let at = crate::engine::gen::idx(pos, v.len() + 1);
            for _ in 0..n {
                v.insert(at, Step::Interrupted);
            }
        }
        v
    });
    let tail = prop_oneof![2 => Just(1u32), 2 => 1u32..64, 2 => Just(8192u32), 1 => Just(1_000_000u32)];
    (steps, tail).boxed()
}

pub fn case_strategy(tier: Tier) -> BoxedStrategy<Case> {
    (data_strategy(tier), schedule_strategy())
        .prop_map(|(d, (schedule, tail_chunk))| Case { data: B(d), schedule, tail_chunk })
        .boxed()
}

pub fn fault_strategy(tier: Tier) -> BoxedStrategy<Case> {
    (data_strategy(tier), schedule_strategy(), any::<u16>(), any::<u8>())
        .prop_map(|(d, (mut schedule, tail_chunk), pos, k)| {
            // place the hard error among the read calls that happen before EOF is reached
            let mut consumed = 0usize;
            let mut needed = 0usize;
            for s in &schedule {
                if consumed >= d.len() {
                    break;
                }
                needed += 1;
                if let Step::Chunk(n) = s {
                    consumed += (*n as usize).clamp(1, 8192);
                }
            }
            let at = crate::engine::gen::idx(pos, needed + 1);
            schedule.insert(at, Step::Error(k));
            Case { data: B(d), schedule, tail_chunk }
        })
        .boxed()
}

fn marker_near_boundary(c: &Case) -> bool {
    // a "$NetBSD" marker or a newline within 8 bytes of a read boundary of the schedule
    let d = &c.data.0;
    let mut pos = 0usize;
    let mut bounds = vec![];
    for s in &c.schedule {
        if let Step::Chunk(n) = s {
            pos += (*n as usize).max(1);
            if pos >= d.len() {
                break;
            }
            bounds.push(pos);
        }
    }
    bounds.push(8192);
    bounds.iter().any(|b| {
        let lo = b.saturating_sub(8);
        let hi = (*b + 8).min(d.len());
        lo < hi && d.len() >= 7 && (lo..hi).any(|i| i + 7 <= d.len() && &d[i..i + 7] == b"$NetBSD")
    })
}

pub fn check(c: &Case, obs: &mut Obs) -> Result<(), String> {
    let data = &c.data.0;
    let filtered = m::patch_filter(data);
    let mut max_reads = 0;
    let mut any_error = false;
    for alg in ALGS {
        let d = to_digest(alg);
        for patch in [false, true] {
            let mut r = SchedReader::new(c);
            let got = if patch { d.hash_patch(&mut r) } else { d.hash_file(&mut r) };
            let what = if patch { "hash_patch" } else { "hash_file" };
            obs.verdicts += 1;
            max_reads = max_reads.max(r.reads);
            match (r.hard_error, got) {
                (Some(kind), Err(DigestError::Io(e))) => {
                    any_error = true;
                    if e.kind() != kind {
                        return Err(format!("{} {}: reader failed with {:?} but the error returned is {:?}", alg.name(), what, kind, e.kind()));
                    }
                }
                (Some(kind), other) => {
                    return Err(format!(
                        "{} {}: the reader reported a hard I/O error ({:?}) but the result is {:?} - a read error must be returned, never hashed past",
                        alg.name(), what, kind, other
                    ))
                }
                (None, Ok(h)) => {
                    let want = m::digest(alg, if patch { &filtered } else { data });
                    if h != want {
                        return Err(format!(
                            "{} {} over {} bytes (schedule of {} steps) = {}, the standard algorithm gives {}",
                            alg.name(), what, data.len(), c.schedule.len(), h, want
                        ));
                    }
                    if h.len() != alg.hex_len() || h.chars().any(|ch| !(ch.is_ascii_digit() || ('a'..='f').contains(&ch))) {
                        return Err(format!("{} digest {:?} is not lower-case hex of length {}", alg.name(), h, alg.hex_len()));
                    }
                }
                (None, Err(e)) => {
                    return Err(format!("{} {} failed ({}) although the reader reported no hard error", alg.name(), what, e))
                }
            }
        }
        if let Ok(s) = std::str::from_utf8(data) {
            let got = d.hash_str(s).map_err(|e| format!("hash_str failed: {}", e))?;
            obs.verdicts += 1;
            let want = m::digest(alg, data);
            if got != want {
                return Err(format!("{} hash_str({:?}) = {}, the standard algorithm gives {}", alg.name(), s, got, want));
            }
        }
    }
    if any_error {
        // a failed call must not leave anything behind: the same data, read without faults on
        // the same thread, hashes as usual
        let clean = Case { data: c.data.clone(), schedule: vec![], tail_chunk: c.tail_chunk };
        for alg in ALGS {
            let d = to_digest(alg);
            for patch in [true, false] {
                let mut r = SchedReader::new(&clean);
                let got = if patch { d.hash_patch(&mut r) } else { d.hash_file(&mut r) };
                let want = m::digest(alg, if patch { &filtered } else { data });
                obs.verdicts += 1;
                if got.as_ref().ok() != Some(&want) {
                    return Err(format!(
                        "{} {} of {} bytes right after a call that failed with an I/O error = {:?}, the standard algorithm gives {} (state left over from the failed call?)",
                        alg.name(), if patch { "hash_patch" } else { "hash_file" }, data.len(), got, want
                    ));
                }
            }
        }
    }
    let near = marker_near_boundary(c);
    obs.nontrivial = (data.len() >= 55 && max_reads >= 3) || near || any_error;
    if data.last() != Some(&b'\n') && data.rsplit(|b| *b == b'\n').next().map(|l| l.windows(7).any(|w| w == b"$NetBSD")).unwrap_or(false) {
        obs.class("final-unterminated-marker-line");
        if data.ends_with(b"$NetBSD") && (data.len() == 7 || data[data.len() - 8] == b'\n') {
            obs.class("final-unterminated-line-is-the-bare-marker");
        }
    }
    if near {
        obs.class("marker-near-read-boundary");
    }
    if any_error {
        obs.class("hard-error-delivered");
    } else if c.schedule.iter().any(|s| matches!(s, Step::Error(_))) {
        obs.class("hard-error-scheduled-after-eof");
    }
    if c.schedule.iter().any(|s| matches!(s, Step::Interrupted)) {
        obs.class("interrupted-reads");
    }
    if filtered.len() != data.len() + if !data.is_empty() && data.last() != Some(&b'\n') { 1 } else { 0 } {
        obs.class("patch-lines-removed");
    }
    if BOUNDARY_LENGTHS.iter().any(|b| data.len() + 1 >= *b && data.len() <= *b + 1) {
        obs.class("block-boundary-length");
    }
    if data.len() > 8192 {
        obs.class("longer-than-8KiB");
    }
    Ok(())
}

// ---------------------------------------------------------------- names

#[derive(Clone, Debug, Serialize, Deserialize)]
pub struct NameCase {
    pub name: String,
}

fn names(_t: Tier) -> Box<dyn Iterator<Item = NameCase>> {
    let mut out = vec![];
    for a in ALGS {
        let n = a.name();
        let letters: Vec<usize> = n.char_indices().filter(|(_, c)| c.is_ascii_alphabetic()).map(|(i, _)| i).collect();
        for mask in 0u32..(1 << letters.len()) {
            let mut cs: Vec<char> = n.to_ascii_lowercase().chars().collect();
            for (k, i) in letters.iter().enumerate() {
                if mask >> k & 1 == 1 {
                    cs[*i] = cs[*i].to_ascii_uppercase();
                }
            }
            out.push(NameCase { name: cs.into_iter().collect() });
        }
    }
    for bad in [
        "", "sha", "sha-1", "sha1 ", " sha1", "md55", "md", "sha224", "sha384", "blake2b", "blake2", "rmd-160", "ripemd160",
        "SHA1\n", "sha2566", "sha5122", "size", "Size", "SHA3", "CRC32", "md4", "sha_1", "1sha", "sha1sha1", "blake2s256", "rmd16",
        "sha512/256", "MD5 ", "\tMD5", "sha\u{0}1",
    ] {
        out.push(NameCase { name: bad.to_string() });
    }
    Box::new(out.into_iter())
}

pub fn check_name(c: &NameCase, obs: &mut Obs) -> Result<(), String> {
    if !c.name.is_ascii() {
        obs.excluded = true;
        return Ok(());
    }
    let want = Alg::from_name_ci(&c.name);
    let got = Digest::from_str(&c.name);
    obs.verdicts += 1;
    match (want, got) {
        (Some(a), Ok(d)) => {
            if d != to_digest(a) {
                return Err(format!("Digest::from_str({:?}) = {:?}, expected {}", c.name, d, a.name()));
            }
            let shown = d.to_string();
            if shown != a.name() {
                return Err(format!("{:?} prints as {:?}, canonical spelling is {:?}", d, shown, a.name()));
            }
            if Digest::from_str(&shown).ok() != Some(d) {
                return Err(format!("from_str(display({:?})) does not give the digest back", d));
            }
            obs.class("case-variant-accepted");
            obs.nontrivial = c.name != a.name();
        }
        (None, Err(DigestError::Unsupported(s))) => {
            if s != c.name {
                return Err(format!("Unsupported error carries {:?} for input {:?}", s, c.name));
            }
            obs.class("non-name-rejected");
            obs.nontrivial = true;
        }
        (None, Err(e)) => return Err(format!("Digest::from_str({:?}) failed with {:?}, expected Unsupported", c.name, e)),
        (Some(a), Err(e)) => return Err(format!("Digest::from_str({:?}) rejected ({}) a case variant of {}", c.name, e, a.name())),
        (None, Ok(d)) => return Err(format!("Digest::from_str({:?}) accepted a string that is no algorithm name as {:?}", c.name, d)),
    }
    Ok(())
}

pub fn property() -> Property {
    Property {
        id: "C13",
        rule: "Byte strings with lengths concentrated on {0,1,55,56,57,63,64,65,111,112,119,120,127,128,129,8191,8192,8193} +-1, patch-like texts (lines with '$NetBSD' markers, almost-markers '$NetBS' / 'NetBSD', markers on a final unterminated line, filler so that a marker straddles offsets 8170-8200 = the BufReader / copy buffer edge), random bytes and patterned data up to 40 KiB, and UTF-8 text. Read schedules: a custom Read delivering generated chunk sizes (1 byte, 1-17, 1-9000, exactly 8192) with Interrupted errors at generated points; the fault stream adds one hard error (any of 12 kinds: Other, UnexpectedEof, BrokenPipe, PermissionDenied, WouldBlock, TimedOut, ConnectionReset, InvalidData, InvalidInput, NotFound, WriteZero, OutOfMemory) at any point of the sequence. Oracle per algorithm (all six): hash_file(reader) = M-hash(bytes) as lower-case hex of the right length; hash_patch(reader) = M-hash(patch_filter(bytes)); hash_str(s) = the same digest for UTF-8 inputs; when the reader delivered a hard error the result must be Err(Io(that kind)). Enumerated stream: every ASCII case variant of the six names parses to the right algorithm, prints canonically and round-trips; 30 near-miss strings are rejected with Unsupported(input). Non-trivial = (length >= 55 and >= 3 read calls) or a '$NetBSD' marker within 8 bytes of a read boundary or an injected hard error was delivered. Distinct = distinct cases.",
        assumptions: vec![
            "M-hash (six algorithms re-implemented from their specifications) is checked against the published test vectors at start and was cross-checked against Python hashlib at development time",
            "the hard error counts only if the reader actually delivered it (a reader that has reached EOF is not read again)",
            "non-ASCII algorithm names are outside the generated domain",
        ],
        streams: vec![
            random_stream("schedules", "data x read schedule (short reads, Interrupted)", case_strategy, |t| t.pick(8_000, 300_000), check),
            random_stream("faults", "data x read schedule with one hard I/O error", fault_strategy, |t| t.pick(4_000, 150_000), check),
            enumerated_stream("names", "all case variants of the six names + near misses", names, check_name),
            crate::fuzz::replay_stream(),
        ],
        selfcheck: m::selfcheck,
        hang_is_violation: false,
        min_nontrivial_share: 0.2,
        extra: Some(crate::fuzz::extra),
    }
}
