//! C06 — best_match returns the matching candidate with the highest version.

use crate::engine::gen::idx;
use crate::engine::*;
use crate::models::dewey::{self, Letters};
use crate::models::pattern as m;
use pkgsrc::Pattern;
use proptest::prelude::*;
use serde::{Deserialize, Serialize};
use std::cmp::Ordering;

#[derive(Clone, Debug, Serialize, Deserialize)]
pub struct ListCase {
    pub pattern: String,
    pub names: Vec<String>,
    /// (permutation selectors, tree shape selectors) for the reductions
    pub orders: Vec<(Vec<u16>, Vec<u16>)>,
}

pub const PATTERNS: [&str; 12] = [
    "b>=1", "b>1<3", "b-[0-9]*", "*", "{a,b}-[0-9]*", "b-1.0", "b>=0", "{a,b,ab}>=1", "a-b-[0-9]*", "?-*", "b<2",
    "{a-b,b}-1*",
];
pub const BASES: [&str; 5] = ["a", "b", "ab", "a-b", "c"];
/// letter-free, rich in ties
pub const VERSIONS: [&str; 22] = [
    "1.0", "1", "1.0.0", "1_0", "1.0pl", "1.0nb0", "01.0", "1.00", "1.0nb1", "1.0rc1", "2", "0.9", "1.0RC1", "3",
    "1.0pre1", "", "4294967296", "4294967295", "1.4294967297", "20240101120000", "20230101120000", "1.0nb4294967296",
];

fn name() -> BoxedStrategy<String> {
    prop_oneof![
        12 => (0usize..BASES.len(), 0usize..VERSIONS.len()).prop_map(|(b, v)| format!("{}-{}", BASES[b], VERSIONS[v])),
        1 => (0usize..BASES.len()).prop_map(|b| BASES[b].to_string()),
    ]
    .boxed()
}

/// names whose versions come from the C01 token generator (letters allowed: the KF-1 leniency of
/// C01 applies to the expected winner)
fn generated_name() -> BoxedStrategy<String> {
    prop_oneof![
        10 => (0usize..BASES.len(), crate::props::vergen::tokens(5)).prop_map(|(b, v)| format!("{}-{}", BASES[b], crate::props::vergen::render(&v, 18).replace('-', ""))),
        1 => (0usize..BASES.len()).prop_map(|b| BASES[b].to_string()),
        1 => crate::props::vergen::tokens(3).prop_map(|v| crate::props::vergen::render(&v, 18).replace('-', "")),
    ]
    .boxed()
}

fn generated_list_strategy(tier: Tier) -> BoxedStrategy<ListCase> {
    let max = tier.pick(5, 6);
    (
        prop::sample::select(vec!["*", "b-*", "{a,b}-*", "?*", "b>=0", "a-b-[0-9]*", "*-*"]),
        prop::collection::vec(generated_name(), 2..=max),
        prop::collection::vec((prop::collection::vec(any::<u16>(), 8), prop::collection::vec(any::<u16>(), 8)), 3),
        // one list in ten: all versions share a prefix of a chosen number of components, so the
        // candidates differ only far behind the start
        prop::option::weighted(0.1, (crate::engine::gen::interesting_len(150), prop::sample::select(vec!["1.", "0.", "a", "1_", "rc1."]))),
    )
        .prop_map(|(p, mut names, orders, prefix)| {
            if let Some((n, unit)) = prefix {
                let pre = unit.repeat(n);
                for name in names.iter_mut() {
                    if let Some(i) = name.rfind('-') {
                        name.insert_str(i + 1, &pre);
                    }
                }
            }
            ListCase { pattern: p.to_string(), names, orders }
        })
        .boxed()
}

fn list_strategy(tier: Tier) -> BoxedStrategy<ListCase> {
    let max = tier.pick(6, 7);
    (
        0usize..PATTERNS.len(),
        // one list in forty is long
        prop_oneof![39 => prop::collection::vec(name(), 2..=max), 1 => prop::collection::vec(name(), 30..70)],
        prop::collection::vec(
            (prop::collection::vec(any::<u16>(), 8), prop::collection::vec(any::<u16>(), 8)),
            6,
        ),
        prop::option::weighted(0.3, (any::<u16>(), any::<u16>())),
    )
        .prop_map(|(p, mut names, orders, dup)| {
            if let Some((i, j)) = dup {
                // duplicate a candidate
                let k = idx(i, names.len());
                let at = idx(j, names.len() + 1);
                let n = names[k].clone();
                names.insert(at, n);
                // and now and then the pattern's own text is a candidate
                if i % 4 == 0 {
                    names.insert(idx(j, names.len() + 1), PATTERNS[p].to_string());
                }
            }
            ListCase { pattern: PATTERNS[p].to_string(), names, orders }
        })
        .boxed()
}

fn version_of(n: &str) -> &str {
    match n.rfind('-') {
        Some(i) => &n[i + 1..],
        None => "",
    }
}

/// the model's winner among matching candidates: highest version, ties to the byte-wise
/// smaller name
fn better<'a>(x: &'a str, y: &'a str) -> &'a str {
    better_with(x, y, Letters::Rank)
}

fn better_with<'a>(x: &'a str, y: &'a str, l: Letters) -> &'a str {
    match dewey::cmp(version_of(x), version_of(y), l) {
        Ordering::Greater => x,
        Ordering::Less => y,
        Ordering::Equal => {
            if x.as_bytes() <= y.as_bytes() {
                x
            } else {
                y
            }
        }
    }
}

fn reduce<'a>(p: &Pattern, items: &[&'a str], shape: &[u16], depth: usize) -> Option<&'a str> {
    // random association tree: split point chosen by the shape selectors
    match items.len() {
        0 => None,
        1 => p.best_match(items[0], items[0]).and(Some(items[0])).filter(|n| p.matches(n)),
        _ => {
            let cut = 1 + idx(shape[depth % shape.len()], items.len() - 1);
            let l = reduce(p, &items[..cut], shape, depth + 1);
            let r = reduce(p, &items[cut..], shape, depth + 2);
            match (l, r) {
                (None, x) | (x, None) => x,
                (Some(a), Some(b)) => p.best_match(a, b),
            }
        }
    }
}

pub fn check(c: &ListCase, obs: &mut Obs) -> Result<(), String> {
    let p = Pattern::new(&c.pattern).map_err(|e| format!("Pattern::new({:?}): {}", c.pattern, e))?;
    let names: Vec<&str> = c.names.iter().map(|s| s.as_str()).collect();
    let matching: Vec<&str> = names.iter().copied().filter(|n| p.matches(n)).collect();
    // model winner
    let winner: Option<&str> = matching.iter().copied().reduce(|a, b| better(a, b));
    // known finding KF-1: where the ASCII-code letter encoding picks another winner, that one is
    // tolerated (and counted)
    let winner_ascii: Option<&str> = matching.iter().copied().reduce(|a, b| better_with(a, b, Letters::AsciiLower));
    if names.iter().any(|n| !dewey::numbers_in_domain(n)) {
        obs.excluded = true;
        return Ok(());
    }
    // pairwise laws
    for &x in &names {
        for &y in &names {
            let got = p.best_match(x, y);
            obs.verdicts += 1;
            let (mx, my) = (p.matches(x), p.matches(y));
            let want = match (mx, my) {
                (false, false) => None,
                (true, false) => Some(x),
                (false, true) => Some(y),
                (true, true) => Some(better(x, y)),
            };
            if got != want {
                let ascii = if mx && my { Some(better_with(x, y, Letters::AsciiLower)) } else { want };
                if ascii != want && got == ascii {
                    obs.known_hits.push(crate::props::c01::KF1);
                } else {
                    return Err(format!(
                        "best_match({:?}; {:?}, {:?}) = {:?}, expected {:?} (matches: {} {})",
                        c.pattern, x, y, got, want, mx, my
                    ));
                }
            }
            if let Some(g) = got {
                if !p.matches(g) {
                    return Err(format!("best_match({:?}; {:?}, {:?}) = {:?} which does not match", c.pattern, x, y, g));
                }
            }
            let rev = p.best_match(y, x);
            if rev != got {
                return Err(format!(
                    "best_match depends on argument order: ({:?},{:?}) -> {:?}, ({:?},{:?}) -> {:?}",
                    x, y, got, y, x, rev
                ));
            }
        }
    }
    // reductions over permutations and association trees
    for (perm, shape) in &c.orders {
        let mut items: Vec<&str> = names.clone();
        // Fisher-Yates driven by the selectors
        for i in (1..items.len()).rev() {
            let j = idx(perm[i % perm.len()], i + 1);
            items.swap(i, j);
        }
        for sh in [shape.as_slice(), &[0u16][..], &[u16::MAX][..]] {
            let got = reduce(&p, &items, sh, 0);
            obs.verdicts += 1;
            if got != winner && winner_ascii != winner && got == winner_ascii {
                obs.known_hits.push(crate::props::c01::KF1);
                continue;
            }
            if got != winner {
                return Err(format!(
                    "reducing {:?} with pattern {:?} gives {:?}, the best matching candidate is {:?}",
                    items, c.pattern, got, winner
                ));
            }
        }
    }
    // the same reduction the way a caller scanning a listing does it: the best name so far and
    // the next candidate each live in one String that is overwritten in place (same address,
    // often the same length, new text) - an answer remembered by address would be stale
    for rev in [false, true] {
        let mut best = String::with_capacity(256);
        let mut cur = String::with_capacity(256);
        let mut have = false;
        let order: Vec<&str> = if rev { names.iter().rev().copied().collect() } else { names.clone() };
        for n in order {
            cur.clear();
            cur.push_str(n);
            let w: Option<String> = if have { p.best_match(&best, &cur) } else { p.best_match(&cur, &cur) }.map(String::from);
            obs.verdicts += 1;
            if let Some(w) = w {
                best.clear();
                best.push_str(&w);
                have = true;
            }
        }
        let got = if have { Some(best.as_str()) } else { None };
        if got != winner {
            if winner_ascii != winner && got == winner_ascii {
                obs.known_hits.push(crate::props::c01::KF1);
            } else {
                return Err(format!(
                    "reducing {:?}{} with pattern {:?} through two reused String buffers gives {:?}, the best matching candidate is {:?}",
                    names, if rev { " (back to front)" } else { "" }, c.pattern, got, winner
                ));
            }
        }
    }
    let tie = matching.iter().any(|x| {
        matching.iter().any(|y| x != y && dewey::cmp(version_of(x), version_of(y), Letters::Rank) == Ordering::Equal)
    });
    let bases: std::collections::BTreeSet<&str> =
        matching.iter().map(|n| n.rfind('-').map(|i| &n[..i]).unwrap_or(n)).collect();
    obs.nontrivial = matching.len() >= 2 && (tie || bases.len() >= 2);
    if tie {
        obs.class("version-tie-different-text");
    }
    if bases.len() >= 2 {
        obs.class("several-bases-match");
    }
    if matching.is_empty() {
        obs.class("nothing-matches");
    }
    if matching.len() < names.len() && !matching.is_empty() {
        obs.class("some-candidates-do-not-match");
    }
    Ok(())
}

// ---------------------------------------------------------------- arbitrary strings

#[derive(Clone, Debug, Serialize, Deserialize)]
pub struct AnyCase {
    pub pattern: String,
    pub a: String,
    pub b: String,
    pub c: String,
}

pub fn any_strategy(_t: Tier) -> BoxedStrategy<AnyCase> {
    let pat = prop_oneof![
        3 => (0usize..PATTERNS.len()).prop_map(|i| PATTERNS[i].to_string()),
        2 => crate::props::c04::pattern_strategy(2),
        2 => "[a-c*?\\[\\]<>=0-2.-]{0,8}",
    ];
    let nm = prop_oneof![
        3 => name(),
        2 => "[a-c0-2.-]{0,6}",
        1 => (crate::props::vergen::tokens(5)).prop_map(|t| format!("b-{}", t.concat().replace('-', ""))),
        1 => prop::collection::vec(any::<char>(), 0..6).prop_map(|v| v.into_iter().collect::<String>()),
    ];
    (pat, nm.clone(), nm.clone(), nm, 0u8..18)
        .prop_map(|(pattern, mut a, mut b, mut c, alias)| {
            // now and then a candidate is the pattern's own text, or two candidates are the same
            match alias {
                0 => a = pattern.clone(),
                1 => b = pattern.clone(),
                2 => c = pattern.clone(),
                3 => b = a.clone(),
                _ => {}
            }
            AnyCase { pattern, a, b, c }
        })
        .boxed()
}

/// self-consistency only: no model of the version order is used here
pub fn check_any(c: &AnyCase, obs: &mut Obs) -> Result<(), String> {
    if m::balanced(&c.pattern) && (m::groups(&c.pattern) > 8 || m::count(&c.pattern) > 256) {
        obs.excluded = true;
        return Ok(());
    }
    let Ok(p) = Pattern::new(&c.pattern) else {
        obs.excluded = true;
        return Ok(());
    };
    let xs = [c.a.as_str(), c.b.as_str(), c.c.as_str()];
    for &x in &xs {
        for &y in &xs {
            let got = p.best_match(x, y);
            obs.verdicts += 1;
            let (mx, my) = (p.matches(x), p.matches(y));
            match got {
                None if mx || my => {
                    return Err(format!("best_match({:?}; {:?}, {:?}) = None although a candidate matches", c.pattern, x, y))
                }
                Some(g) if !(mx || my) || !(g == x || g == y) || !p.matches(g) => {
                    return Err(format!("best_match({:?}; {:?}, {:?}) = {:?}: not a matching candidate", c.pattern, x, y, g))
                }
                _ => {}
            }
            if mx != my {
                let want = if mx { x } else { y };
                if got != Some(want) {
                    return Err(format!("best_match({:?}; {:?}, {:?}) = {:?}, only {:?} matches", c.pattern, x, y, got, want));
                }
            }
            if p.best_match(y, x) != got {
                return Err(format!("best_match depends on argument order for ({:?}, {:?}) with {:?}", x, y, c.pattern));
            }
        }
    }
    // associativity over the three candidates
    let fold = |i: [usize; 3]| -> Option<&str> {
        let ab = p.best_match(xs[i[0]], xs[i[1]]);
        match ab {
            Some(w) => p.best_match(w, xs[i[2]]),
            None => p.best_match(xs[i[2]], xs[i[2]]),
        }
    };
    let first = fold([0, 1, 2]);
    for perm in [[0, 2, 1], [1, 0, 2], [1, 2, 0], [2, 0, 1], [2, 1, 0]] {
        let r = fold(perm);
        obs.verdicts += 1;
        if r != first {
            return Err(format!(
                "pairwise reduction of {:?} with {:?} depends on the order: {:?} vs {:?} (order {:?})",
                xs, c.pattern, first, r, perm
            ));
        }
    }
    let nm = xs.iter().filter(|x| p.matches(x)).count();
    obs.nontrivial = nm >= 2;
    if nm >= 2 {
        obs.class("two-or-more-match");
    }
    Ok(())
}

pub fn property() -> Property {
    Property {
        id: "C06",
        rule: "Stream 'lists': a pattern of each kind (dewey one/two bounds, glob, '*', alternation, plain) and 2-7 candidate names over bases {a,b,ab,a-b,c} and a letter-free version pool rich in ties (1.0, 1, 1.0.0, 1_0, 1.0pl, 1.0nb0, 01.0, 1.00, 1.0nb1, 1.0rc1, 1.0RC1, 1.0pre1, 2, 0.9, 3, empty, and components around 2^32 / 14-digit dates); one list in forty has 30-70 candidates, with duplicates and names without '-'. Oracle: for every ordered pair, best_match = None iff neither matches, else the M-dewey maximum of the matching ones with ties to the byte-wise smaller name, and symmetric in its arguments; reducing the list pairwise (None as identity) along 6 generated permutations x 3 association trees (generated, left-deep, right-deep) gives the model's winner. Stream 'arbitrary': arbitrary patterns and names, self-consistency only (result is a matching candidate, the only matching one wins, symmetric, all 6 fold orders of three candidates agree). Non-trivial = at least 2 candidates match and (two of them tie with different text or different bases are involved). Distinct = distinct cases. Generators also draw, at low weight, tokens from the source-literal dictionary (every string / byte / character literal of the library's own source, collected at build time and filtered by this domain's character class) (through the C01 token generator).",
        assumptions: vec!["versions in the model-checked stream are letter-free so that known finding KF-1 cannot interfere"],
        streams: vec![
            random_stream("lists", "candidate lists, model winner, permutations and association trees", list_strategy, |t| t.pick(40_000, 3_000_000), check),
            random_stream("lists-generated", "candidate lists whose versions come from the C01 token generator (KF-1 region tolerated and counted)", generated_list_strategy, |t| t.pick(30_000, 3_000_000), check),
            random_stream("arbitrary", "arbitrary patterns and names, self-consistency laws", any_strategy, |t| t.pick(60_000, 4_000_000), check_any), crate::fuzz::replay_stream()],
        selfcheck: dewey::selfcheck,
        hang_is_violation: false,
        min_nontrivial_share: 0.05,
        extra: Some(crate::fuzz::extra),
    }
}
