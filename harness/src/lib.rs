//! Verification harness for pkgsrc-rs: property-based checks with explicit oracles.
pub mod engine;
pub mod models;
pub mod props;
pub mod targets;
pub mod fuzz;
