use pkgsrc_verif::engine::{self, Tier};
use std::path::Path;

fn usage() -> ! {
    eprintln!("usage: pv <Cxx> quick|thorough | pv replay <file> | pv list | pv selftest");
    std::process::exit(2);
}

fn main() {
    // run everything on a thread with a large stack (the code under test recurses per brace group)
    let h = std::thread::Builder::new().stack_size(pkgsrc_verif::engine::SHARD_STACK).spawn(real_main).expect("spawn main");
    let _ = h.join();
}

fn real_main() {
    let args: Vec<String> = std::env::args().collect();
    if args.len() < 2 {
        usage();
    }
    let props = pkgsrc_verif::props::all();
    match args[1].as_str() {
        "list" => {
            for p in &props {
                println!("{}", p.id);
            }
        }
        "hash" => {
            // development aid: pv hash <alg> <hex> -> digest by M-hash
            use pkgsrc_verif::models::hash as h;
            let alg = h::Alg::from_name_ci(&args[2]).expect("alg");
            let bytes: Vec<u8> = (0..args[3].len() / 2).map(|i| u8::from_str_radix(&args[3][2 * i..2 * i + 2], 16).unwrap()).collect();
            println!("{}", h::digest(alg, &bytes));
        }
        "modelcheck" => {
            use pkgsrc_verif::models as m;
            for (n, r) in [("dewey", m::dewey::selfcheck()), ("pattern", m::pattern::selfcheck()), ("plist", m::plist::selfcheck()), ("summary", m::summary::selfcheck()), ("hash", m::hash::selfcheck())] {
                println!("{} {:?}", n, r);
            }
        }
        "selftest" => {
            let mut bad = 0;
            for p in &props {
                match (p.selfcheck)() {
                    Ok(()) => println!("{} selfcheck ok", p.id),
                    Err(e) => {
                        bad += 1;
                        println!("{} selfcheck FAILED: {}", p.id, e)
                    }
                }
            }
            std::process::exit(if bad == 0 { 0 } else { 2 });
        }
        "replay" => {
            if args.len() != 3 {
                usage();
            }
            std::process::exit(engine::replay_file(&props, Path::new(&args[2])));
        }
        id => {
            if args.len() != 3 {
                usage();
            }
            let tier = match args[2].as_str() {
                "quick" => Tier::Quick,
                "thorough" => Tier::Thorough,
                _ => usage(),
            };
            let seed: u64 = std::env::var("VERIF_SEED")
                .ok()
                .and_then(|s| s.trim().parse::<i64>().ok())
                .map(|v| v as u64)
                .unwrap_or(1);
            let Some(p) = props.iter().find(|p| p.id == id) else {
                eprintln!("unknown property {}", id);
                std::process::exit(2);
            };
            std::process::exit(engine::run_property(p, tier, seed));
        }
    }
}
