//! Byte-level entry functions shared by the C17 check, the libFuzzer targets and replay.
//! Each takes arbitrary bytes, drives one family of public entry points, and reports whether
//! the input got past the entry point's first validation step.  A panic is the failure signal
//! (caught by the caller); semantic oracles live in the property modules.

use crate::models::pattern as mp;
use crate::models::summary::{Call, Val, VARS, Kind};
use crate::props::sumapi;
use pkgsrc::digest::Digest;
use pkgsrc::distinfo::{Distinfo, EntryType};
use pkgsrc::plist::{Plist, PlistEntry};
use pkgsrc::summary::{Summary, SummaryStream};
use pkgsrc::{Depend, Dewey, Metadata, MetadataEntry, Pattern, PkgName, PkgPath, ScanIndex};
use std::io::{Read, Write};
use std::str::FromStr;

#[derive(Clone, Copy, Debug, Default, PartialEq, Eq)]
pub struct Progress {
    /// the entry point accepted the input / produced at least one record, line or match
    pub past_validation: bool,
    /// skipped by construction (cost exponential by specification)
    pub excluded: bool,
}

pub const MAX_INPUT: usize = 4096;
/// brace patterns with more expansions than this are excluded and counted
pub const MAX_EXPANSIONS: u128 = 1024;
/// ... and so are patterns whose expansions x length exceed this (every expansion is a string
/// of about the pattern's length)
pub const MAX_EXPANSION_WORK: u128 = 1 << 17;

pub const TARGETS: [&str; 11] = [
    "pattern", "names", "summary", "stream", "plist", "distinfo", "scanindex", "digest", "metadata", "pkgdb", "summary_ops",
];

pub fn run(target: &str, data: &[u8]) -> Progress {
    let data = &data[..data.len().min(MAX_INPUT)];
    match target {
        "pattern" => pattern(data),
        "names" => names(data),
        "summary" => summary(data),
        "stream" => stream(data),
        "plist" => plist(data),
        "distinfo" => distinfo(data),
        "scanindex" => scanindex(data),
        "digest" => digest(data),
        "metadata" => metadata(data),
        "pkgdb" => pkgdb(data),
        "summary_ops" => summary_ops(data),
        _ => Progress::default(),
    }
}

fn text(data: &[u8]) -> String {
    String::from_utf8_lossy(data).into_owned()
}

/// first line = pattern, following lines = candidate names
pub fn pattern(data: &[u8]) -> Progress {
    let t = text(data);
    let mut it = t.split('\n');
    let pat = it.next().unwrap_or("");
    let names: Vec<&str> = it.take(3).collect();
    let mut pr = Progress::default();
    if pat.contains(['{', '}'])
        && mp::balanced(pat)
        && (mp::count(pat) > MAX_EXPANSIONS || mp::count(pat).saturating_mul(pat.len() as u128) > MAX_EXPANSION_WORK)
    {
        pr.excluded = true;
        return pr;
    }
    if let Ok(d) = Dewey::new(pat) {
        pr.past_validation = true;
        for n in &names {
            let _ = d.matches(n);
        }
    }
    if let Ok(p) = Pattern::new(pat) {
        pr.past_validation = true;
        let _ = p.pattern();
        for n in &names {
            let _ = p.matches(n);
        }
        for a in &names {
            for b in &names {
                let _ = p.best_match(a, b);
            }
        }
        let _ = p.best_match(pat, pat);
    }
    pr
}

/// every line: PkgName, PkgPath, Depend
pub fn names(data: &[u8]) -> Progress {
    let t = text(data);
    let mut pr = Progress::default();
    for line in t.split('\n').take(16) {
        let n = PkgName::new(line);
        let _ = (n.pkgname(), n.pkgbase(), n.pkgversion(), n.pkgrevision());
        if line.contains('-') {
            pr.past_validation = true;
        }
        if let Ok(p) = PkgPath::new(line) {
            pr.past_validation = true;
            let _ = (p.as_path(), p.as_full_path());
        }
        if let Ok(d) = Depend::new(line) {
            pr.past_validation = true;
            let _ = (d.pattern().pattern(), d.pkgpath().as_path());
        }
        let _ = PkgPath::from_str(line);
        let _ = Depend::from_str(line);
    }
    pr
}

fn poke_summary(s: &Summary) {
    for i in 0..VARS.len() {
        let _ = sumapi::get(s, i);
    }
    let _ = (s.description_as_str(), s.pkgbase(), s.pkgversion(), s.is_completed());
    let _ = s.to_string();
    let _ = s.clone();
}

pub fn summary(data: &[u8]) -> Progress {
    let t = text(data);
    let mut pr = Progress::default();
    match Summary::from_str(&t) {
        Ok(s) => {
            pr.past_validation = true;
            poke_summary(&s);
        }
        Err(e) => {
            let _ = e.to_string();
            // got past the line format if the complaint is about completeness
            pr.past_validation = matches!(e, pkgsrc::summary::SummaryError::Incomplete(_));
        }
    }
    pr
}

/// first byte = chunk size selector, rest = the stream
pub fn stream(data: &[u8]) -> Progress {
    let mut pr = Progress::default();
    if data.is_empty() {
        return pr;
    }
    let chunk = match data[0] % 8 {
        0 => 1,
        1 => 2,
        2 => 3,
        3 => 7,
        4 => 64,
        5 => 1000,
        _ => data.len(),
    };
    let body = &data[1..];
    let mut s = SummaryStream::new();
    // bit 3: a zero-length write after every chunk; bit 4: chunks end at line ends instead
    let empty_writes = data[0] & 8 != 0;
    let pieces: Vec<&[u8]> = if data[0] & 16 != 0 { body.split_inclusive(|b| *b == b'\n').collect() } else { body.chunks(chunk.max(1)).collect() };
    'writes: for c in pieces {
        for part in [Some(c), if empty_writes { Some(&c[..0]) } else { None }].into_iter().flatten() {
            match s.write(part) {
                Ok(_) => {}
                Err(e) => {
                    let _ = e.to_string();
                    break 'writes;
                }
            }
        }
    }
    let _ = s.flush();
    if !s.entries().is_empty() {
        pr.past_validation = true;
    }
    for e in s.entries() {
        poke_summary(e);
    }
    let _ = s.to_string();
    let _ = s.entries_mut().len();
    pr
}

pub fn plist(data: &[u8]) -> Progress {
    let mut pr = Progress::default();
    for l in data.split(|b| *b == b'\n').take(64) {
        if let Ok(e) = PlistEntry::from_bytes(l) {
            let _ = format!("{:?}", e);
        }
    }
    match Plist::from_bytes(data) {
        Ok(p) => {
            pr.past_validation = !p.files().is_empty() || !p.install_cmds().is_empty() || data.iter().any(|b| *b == b'@');
            let _ = (p.pkgname(), p.display(), p.depends(), p.build_depends(), p.conflicts(), p.pkgdirs(), p.pkgrmdirs());
            let _ = (p.files(), p.files_prefixed(), p.install_cmds().len(), p.uninstall_cmds().len(), p.is_preserve());
            let _ = format!("{:?}", p);
        }
        Err(e) => {
            let _ = e.to_string();
        }
    }
    pr
}

pub fn distinfo(data: &[u8]) -> Progress {
    let mut pr = Progress::default();
    let d = Distinfo::from_bytes(data);
    let _ = d.rcsid();
    let out = d.as_bytes();
    let again = Distinfo::from_bytes(&out);
    let _ = again.as_bytes();
    let entries: Vec<_> = d.distfiles().into_iter().chain(d.patchfiles()).collect();
    if !entries.is_empty() {
        pr.past_validation = true;
    }
    for e in entries.iter().take(32) {
        let _ = e.as_bytes();
        let _ = EntryType::from(&e.filename);
        let _ = d.find_entry(&e.filename);
        let _ = d.find_entry(std::path::Path::new("/some/dir").join(&e.filename));
        let _ = d.get_distfile(&e.filename);
        let _ = d.get_patchfile(&e.filename);
        // verification against a path that does not exist must be an error, not a panic
        let _ = d.verify_size(std::path::Path::new("/nonexistent-pv").join(&e.filename));
        let _ = d.verify_checksums(std::path::Path::new("/nonexistent-pv").join(&e.filename));
    }
    let _ = d.find_entry(std::ffi::OsStr::new(""));
    let _ = EntryType::from(std::path::Path::new(&*String::from_utf8_lossy(&data[..data.len().min(64)])));
    let _ = format!("{:?}", d);
    pr
}

pub fn scanindex(data: &[u8]) -> Progress {
    let mut pr = Progress::default();
    match ScanIndex::from_reader(data) {
        Ok(v) => {
            pr.past_validation = !v.is_empty();
            for r in &v {
                let _ = format!("{:?}", r);
                let _ = r.clone() == *r;
            }
        }
        Err(e) => {
            let _ = e.to_string();
        }
    }
    // the same bytes through a reader that, from some offset on, fails on every call: the error
    // must come back (promptly), however often the reader would go on failing
    if let Some(first) = data.first() {
        let limit = (*first as usize * data.len()) / 256;
        let r = ScanIndex::from_reader(std::io::BufReader::with_capacity(16, FailingForever(data, limit)));
        if let Err(e) = r {
            let _ = e.to_string();
        }
    }
    pr
}

/// delivers the first `.1` bytes of `.0`, then fails on every call, for ever
struct FailingForever<'a>(&'a [u8], usize);
impl Read for FailingForever<'_> {
    fn read(&mut self, buf: &mut [u8]) -> std::io::Result<usize> {
        if self.1 == 0 {
            return Err(std::io::Error::new(std::io::ErrorKind::Other, "persistent read failure"));
        }
        let n = self.1.min(buf.len()).min(self.0.len()).min(7);
        if n == 0 {
            self.1 = 0;
            return Err(std::io::Error::new(std::io::ErrorKind::Other, "persistent read failure"));
        }
        buf[..n].copy_from_slice(&self.0[..n]);
        self.0 = &self.0[n..];
        self.1 -= n;
        Ok(n)
    }
}

struct Chunked<'a>(&'a [u8], usize);
impl Read for Chunked<'_> {
    fn read(&mut self, buf: &mut [u8]) -> std::io::Result<usize> {
        let n = self.1.max(1).min(buf.len()).min(self.0.len());
        buf[..n].copy_from_slice(&self.0[..n]);
        self.0 = &self.0[n..];
        Ok(n)
    }
}

/// first line = algorithm name, rest = data; first byte of the data selects the read size
pub fn digest(data: &[u8]) -> Progress {
    let mut pr = Progress::default();
    let split = data.iter().position(|b| *b == b'\n').unwrap_or(data.len());
    let name = text(&data[..split]);
    let body = if split < data.len() { &data[split + 1..] } else { &[][..] };
    let chunk = body.first().map(|b| (*b as usize % 67) + 1).unwrap_or(1);
    let algs: Vec<Digest> = match Digest::from_str(&name) {
        Ok(d) => {
            pr.past_validation = true;
            let _ = d.to_string();
            vec![d]
        }
        Err(e) => {
            let _ = e.to_string();
            vec![Digest::SHA1, Digest::BLAKE2s]
        }
    };
    for d in algs {
        let _ = d.hash_file(&mut FailingForever(body, body.len() / 2));
        let _ = d.hash_patch(&mut FailingForever(body, body.len() / 2));
        let _ = d.hash_file(&mut Chunked(body, chunk));
        let _ = d.hash_patch(&mut Chunked(body, chunk));
        if let Ok(s) = std::str::from_utf8(body) {
            let _ = d.hash_str(s);
        }
    }
    pr
}

const ENTRIES: [fn() -> MetadataEntry; 14] = [
    || MetadataEntry::BuildInfo,
    || MetadataEntry::BuildVersion,
    || MetadataEntry::Comment,
    || MetadataEntry::Contents,
    || MetadataEntry::DeInstall,
    || MetadataEntry::Desc,
    || MetadataEntry::Display,
    || MetadataEntry::Install,
    || MetadataEntry::InstalledInfo,
    || MetadataEntry::MtreeDirs,
    || MetadataEntry::Preserve,
    || MetadataEntry::RequiredBy,
    || MetadataEntry::SizeAll,
    || MetadataEntry::SizePkg,
];

/// the text is read into every metadata entry; first line is also tried as a file name
pub fn metadata(data: &[u8]) -> Progress {
    let mut pr = Progress::default();
    let t = text(data);
    let first = t.split('\n').next().unwrap_or("");
    if let Some(e) = MetadataEntry::from_filename(first) {
        pr.past_validation = true;
        let _ = e.to_filename();
    }
    let mut m = Metadata::new();
    for e in ENTRIES {
        if m.read_metadata(e(), &t).is_ok() {
            pr.past_validation = true;
        }
    }
    let _ = m.is_valid();
    let _ = (m.comment(), m.contents(), m.desc(), m.size_all(), m.size_pkg(), m.build_info(), m.required_by());
    let _ = format!("{:?}", m);
    pr
}

/// bytes decode a directory tree: records separated by 0x00; each record = name 0x01 file-mask
pub fn pkgdb(data: &[u8]) -> Progress {
    use std::os::unix::ffi::OsStringExt;
    let mut pr = Progress::default();
    let Ok(root) = crate::props::c12::scratch("c17db") else {
        return pr;
    };
    struct Cleanup(std::path::PathBuf);
    impl Drop for Cleanup {
        fn drop(&mut self) {
            let _ = std::fs::remove_dir_all(&self.0);
        }
    }
    let _c = Cleanup(root.clone());
    for (k, rec) in data.split(|b| *b == 0).take(8).enumerate() {
        let mut parts = rec.splitn(2, |b| *b == 1);
        let mut name: Vec<u8> = parts.next().unwrap_or(b"").iter().copied().filter(|b| *b != b'/').take(40).collect();
        let mask = parts.next().unwrap_or(b"");
        if name.is_empty() || name == b"." || name == b".." {
            name = format!("d{}", k).into_bytes();
        }
        let p = root.join(std::ffi::OsString::from_vec(name));
        let bits: u32 = mask.iter().take(2).fold(0u32, |a, b| (a << 8) | *b as u32) | if mask.is_empty() { 0xffff } else { 0 };
        if bits & 0x8000 != 0 && !mask.is_empty() {
            let _ = std::fs::write(&p, b"plain file");
            continue;
        }
        if std::fs::create_dir(&p).is_err() {
            continue;
        }
        for (i, e) in ENTRIES.iter().enumerate() {
            if bits >> i & 1 == 1 {
                let body: &[u8] = if mask.len() > 2 { &mask[2..] } else { b"text\n" };
                let _ = std::fs::write(p.join(e().to_filename()), body);
            }
        }
        if bits & 0x4000 != 0 {
            let _ = std::fs::create_dir(p.join("nested"));
        }
    }
    if let Ok(db) = pkgsrc::pkgdb::PkgDB::open(&root) {
        for item in db {
            match item {
                Ok(pkg) => {
                    pr.past_validation = true;
                    let _ = (pkg.pkgname(), pkg.pkgbase(), pkg.pkgversion());
                    let mut m = Metadata::new();
                    for e in ENTRIES {
                        if let Ok(body) = pkg.read_metadata(e()) {
                            let _ = m.read_metadata(e(), &body);
                        }
                    }
                    let _ = m.is_valid();
                }
                Err(e) => {
                    let _ = e.to_string();
                }
            }
        }
    }
    let _ = pkgsrc::pkgdb::PkgDB::open(&root.join("does-not-exist"));
    pr
}

/// decode a call sequence on Summary from bytes: op byte, variable byte, then a value
pub fn decode_ops(data: &[u8]) -> Vec<Op> {
    let mut ops = vec![];
    let mut i = 0;
    while i + 1 < data.len() && ops.len() < 64 {
        let (op, var) = (data[i], data[i + 1] as usize % VARS.len());
        i += 2;
        let len = data.get(i).map(|b| (*b % 16) as usize).unwrap_or(0);
        i += 1;
        let end = (i + len).min(data.len());
        let val = String::from_utf8_lossy(&data[i.min(data.len())..end]).into_owned();
        i = end;
        ops.push(match op % 8 {
            0 | 1 | 2 => Op::Call(match VARS[var].1 {
                Kind::Scalar => Call::Set(var, Val::S(val)),
                Kind::Int => Call::Set(var, Val::I(val.bytes().fold(0i64, |a, b| a.wrapping_mul(31).wrapping_add(b as i64)))),
                Kind::List if val.is_empty() && op % 8 == 2 => Call::Set(var, Val::L(vec![])),
                Kind::List => Call::Set(var, Val::L(val.split(',').map(String::from).collect())),
            }),
            3 | 4 => {
                if VARS[var].1 == Kind::List {
                    Op::Call(Call::Push(var, val))
                } else {
                    Op::Get(var)
                }
            }
            5 => Op::Get(var),
            6 => Op::Poke,
            _ => Op::CloneAndPrint,
        });
    }
    ops
}

#[derive(Clone, Debug, PartialEq, Eq)]
pub enum Op {
    Call(Call),
    Get(usize),
    Poke,
    CloneAndPrint,
}

pub fn summary_ops(data: &[u8]) -> Progress {
    let ops = decode_ops(data);
    let mut s = Summary::new();
    for op in &ops {
        match op {
            Op::Call(c) => {
                let _ = sumapi::apply(&mut s, std::slice::from_ref(c));
            }
            Op::Get(i) => {
                let _ = sumapi::get(&s, *i);
            }
            Op::Poke => poke_summary(&s),
            Op::CloneAndPrint => {
                let c = s.clone();
                let _ = c.to_string();
                let _ = Summary::from_str(&c.to_string());
            }
        }
    }
    poke_summary(&s);
    Progress { past_validation: ops.len() >= 2, excluded: false }
}
