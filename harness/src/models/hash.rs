//! M-hash: the six digest algorithms re-implemented from their specifications
//! (MD5 RFC 1321, SHA-1 / SHA-256 / SHA-512 FIPS 180-4, RIPEMD-160 Dobbertin-Bosselaers-Preneel,
//! BLAKE2s-256 RFC 7693).  SHA-2 and MD5 constants are generated from their definitions
//! (fractional parts of roots of primes, |sin i|) by a script at development time.
//! Also `patch_filter`, the definition of the patch hash input.

#![allow(clippy::needless_range_loop)]

pub const SHA256_H0: [u32; 8] = [
    0x6a09e667, 0xbb67ae85, 0x3c6ef372, 0xa54ff53a,
    0x510e527f, 0x9b05688c, 0x1f83d9ab, 0x5be0cd19,
];

pub const SHA256_K: [u32; 64] = [
    0x428a2f98, 0x71374491, 0xb5c0fbcf, 0xe9b5dba5,
    0x3956c25b, 0x59f111f1, 0x923f82a4, 0xab1c5ed5,
    0xd807aa98, 0x12835b01, 0x243185be, 0x550c7dc3,
    0x72be5d74, 0x80deb1fe, 0x9bdc06a7, 0xc19bf174,
    0xe49b69c1, 0xefbe4786, 0x0fc19dc6, 0x240ca1cc,
    0x2de92c6f, 0x4a7484aa, 0x5cb0a9dc, 0x76f988da,
    0x983e5152, 0xa831c66d, 0xb00327c8, 0xbf597fc7,
    0xc6e00bf3, 0xd5a79147, 0x06ca6351, 0x14292967,
    0x27b70a85, 0x2e1b2138, 0x4d2c6dfc, 0x53380d13,
    0x650a7354, 0x766a0abb, 0x81c2c92e, 0x92722c85,
    0xa2bfe8a1, 0xa81a664b, 0xc24b8b70, 0xc76c51a3,
    0xd192e819, 0xd6990624, 0xf40e3585, 0x106aa070,
    0x19a4c116, 0x1e376c08, 0x2748774c, 0x34b0bcb5,
    0x391c0cb3, 0x4ed8aa4a, 0x5b9cca4f, 0x682e6ff3,
    0x748f82ee, 0x78a5636f, 0x84c87814, 0x8cc70208,
    0x90befffa, 0xa4506ceb, 0xbef9a3f7, 0xc67178f2,
];

pub const SHA512_H0: [u64; 8] = [
    0x6a09e667f3bcc908, 0xbb67ae8584caa73b,
    0x3c6ef372fe94f82b, 0xa54ff53a5f1d36f1,
    0x510e527fade682d1, 0x9b05688c2b3e6c1f,
    0x1f83d9abfb41bd6b, 0x5be0cd19137e2179,
];

pub const SHA512_K: [u64; 80] = [
    0x428a2f98d728ae22, 0x7137449123ef65cd,
    0xb5c0fbcfec4d3b2f, 0xe9b5dba58189dbbc,
    0x3956c25bf348b538, 0x59f111f1b605d019,
    0x923f82a4af194f9b, 0xab1c5ed5da6d8118,
    0xd807aa98a3030242, 0x12835b0145706fbe,
    0x243185be4ee4b28c, 0x550c7dc3d5ffb4e2,
    0x72be5d74f27b896f, 0x80deb1fe3b1696b1,
    0x9bdc06a725c71235, 0xc19bf174cf692694,
    0xe49b69c19ef14ad2, 0xefbe4786384f25e3,
    0x0fc19dc68b8cd5b5, 0x240ca1cc77ac9c65,
    0x2de92c6f592b0275, 0x4a7484aa6ea6e483,
    0x5cb0a9dcbd41fbd4, 0x76f988da831153b5,
    0x983e5152ee66dfab, 0xa831c66d2db43210,
    0xb00327c898fb213f, 0xbf597fc7beef0ee4,
    0xc6e00bf33da88fc2, 0xd5a79147930aa725,
    0x06ca6351e003826f, 0x142929670a0e6e70,
    0x27b70a8546d22ffc, 0x2e1b21385c26c926,
    0x4d2c6dfc5ac42aed, 0x53380d139d95b3df,
    0x650a73548baf63de, 0x766a0abb3c77b2a8,
    0x81c2c92e47edaee6, 0x92722c851482353b,
    0xa2bfe8a14cf10364, 0xa81a664bbc423001,
    0xc24b8b70d0f89791, 0xc76c51a30654be30,
    0xd192e819d6ef5218, 0xd69906245565a910,
    0xf40e35855771202a, 0x106aa07032bbd1b8,
    0x19a4c116b8d2d0c8, 0x1e376c085141ab53,
    0x2748774cdf8eeb99, 0x34b0bcb5e19b48a8,
    0x391c0cb3c5c95a63, 0x4ed8aa4ae3418acb,
    0x5b9cca4f7763e373, 0x682e6ff3d6b2b8a3,
    0x748f82ee5defb2fc, 0x78a5636f43172f60,
    0x84c87814a1f0ab72, 0x8cc702081a6439ec,
    0x90befffa23631e28, 0xa4506cebde82bde9,
    0xbef9a3f7b2c67915, 0xc67178f2e372532b,
    0xca273eceea26619c, 0xd186b8c721c0c207,
    0xeada7dd6cde0eb1e, 0xf57d4f7fee6ed178,
    0x06f067aa72176fba, 0x0a637dc5a2c898a6,
    0x113f9804bef90dae, 0x1b710b35131c471b,
    0x28db77f523047d84, 0x32caab7b40c72493,
    0x3c9ebe0a15c9bebc, 0x431d67c49c100d4c,
    0x4cc5d4becb3e42b6, 0x597f299cfc657e2a,
    0x5fcb6fab3ad6faec, 0x6c44198c4a475817,
];

pub const MD5_K: [u32; 64] = [
    0xd76aa478, 0xe8c7b756, 0x242070db, 0xc1bdceee,
    0xf57c0faf, 0x4787c62a, 0xa8304613, 0xfd469501,
    0x698098d8, 0x8b44f7af, 0xffff5bb1, 0x895cd7be,
    0x6b901122, 0xfd987193, 0xa679438e, 0x49b40821,
    0xf61e2562, 0xc040b340, 0x265e5a51, 0xe9b6c7aa,
    0xd62f105d, 0x02441453, 0xd8a1e681, 0xe7d3fbc8,
    0x21e1cde6, 0xc33707d6, 0xf4d50d87, 0x455a14ed,
    0xa9e3e905, 0xfcefa3f8, 0x676f02d9, 0x8d2a4c8a,
    0xfffa3942, 0x8771f681, 0x6d9d6122, 0xfde5380c,
    0xa4beea44, 0x4bdecfa9, 0xf6bb4b60, 0xbebfbc70,
    0x289b7ec6, 0xeaa127fa, 0xd4ef3085, 0x04881d05,
    0xd9d4d039, 0xe6db99e5, 0x1fa27cf8, 0xc4ac5665,
    0xf4292244, 0x432aff97, 0xab9423a7, 0xfc93a039,
    0x655b59c3, 0x8f0ccc92, 0xffeff47d, 0x85845dd1,
    0x6fa87e4f, 0xfe2ce6e0, 0xa3014314, 0x4e0811a1,
    0xf7537e82, 0xbd3af235, 0x2ad7d2bb, 0xeb86d391,
];


#[derive(Clone, Copy, Debug, PartialEq, Eq)]
pub enum Alg {
    Blake2s,
    Md5,
    Rmd160,
    Sha1,
    Sha256,
    Sha512,
}

pub const ALGS: [Alg; 6] = [Alg::Blake2s, Alg::Md5, Alg::Rmd160, Alg::Sha1, Alg::Sha256, Alg::Sha512];

impl Alg {
    /// canonical spelling used by pkgsrc
    pub fn name(self) -> &'static str {
        match self {
            Alg::Blake2s => "BLAKE2s",
            Alg::Md5 => "MD5",
            Alg::Rmd160 => "RMD160",
            Alg::Sha1 => "SHA1",
            Alg::Sha256 => "SHA256",
            Alg::Sha512 => "SHA512",
        }
    }
    pub fn hex_len(self) -> usize {
        match self {
            Alg::Blake2s => 64,
            Alg::Md5 => 32,
            Alg::Rmd160 => 40,
            Alg::Sha1 => 40,
            Alg::Sha256 => 64,
            Alg::Sha512 => 128,
        }
    }
    pub fn from_name_ci(s: &str) -> Option<Alg> {
        ALGS.iter().copied().find(|a| a.name().eq_ignore_ascii_case(s))
    }
}

pub fn hex(b: &[u8]) -> String {
    let mut s = String::with_capacity(b.len() * 2);
    for x in b {
        s.push_str(&format!("{:02x}", x));
    }
    s
}

/// Merkle-Damgard padding: 0x80, zeros, message bit length (len_bytes wide, LE or BE)
fn md_pad(msg: &[u8], block: usize, len_bytes: usize, big_endian: bool) -> Vec<u8> {
    let mut m = msg.to_vec();
    let bits = (msg.len() as u128) * 8;
    m.push(0x80);
    while m.len() % block != block - len_bytes {
        m.push(0);
    }
    if big_endian {
        m.extend_from_slice(&bits.to_be_bytes()[16 - len_bytes..]);
    } else {
        m.extend_from_slice(&bits.to_le_bytes()[..len_bytes]);
    }
    m
}

pub fn md5(msg: &[u8]) -> Vec<u8> {
    const S: [u32; 64] = [
        7, 12, 17, 22, 7, 12, 17, 22, 7, 12, 17, 22, 7, 12, 17, 22, 5, 9, 14, 20, 5, 9, 14, 20, 5, 9, 14, 20, 5, 9,
        14, 20, 4, 11, 16, 23, 4, 11, 16, 23, 4, 11, 16, 23, 4, 11, 16, 23, 6, 10, 15, 21, 6, 10, 15, 21, 6, 10, 15,
        21, 6, 10, 15, 21,
    ];
    let (mut a0, mut b0, mut c0, mut d0) = (0x67452301u32, 0xefcdab89u32, 0x98badcfeu32, 0x10325476u32);
    for chunk in md_pad(msg, 64, 8, false).chunks(64) {
        let w: Vec<u32> = chunk.chunks(4).map(|c| u32::from_le_bytes([c[0], c[1], c[2], c[3]])).collect();
        let (mut a, mut b, mut c, mut d) = (a0, b0, c0, d0);
        for i in 0..64 {
            let (f, g) = match i / 16 {
                0 => ((b & c) | (!b & d), i),
                1 => ((d & b) | (!d & c), (5 * i + 1) % 16),
                2 => (b ^ c ^ d, (3 * i + 5) % 16),
                _ => (c ^ (b | !d), (7 * i) % 16),
            };
            let f2 = f.wrapping_add(a).wrapping_add(MD5_K[i]).wrapping_add(w[g]);
            a = d;
            d = c;
            c = b;
            b = b.wrapping_add(f2.rotate_left(S[i]));
        }
        a0 = a0.wrapping_add(a);
        b0 = b0.wrapping_add(b);
        c0 = c0.wrapping_add(c);
        d0 = d0.wrapping_add(d);
    }
    [a0, b0, c0, d0].iter().flat_map(|x| x.to_le_bytes()).collect()
}

pub fn sha1(msg: &[u8]) -> Vec<u8> {
    let mut h: [u32; 5] = [0x67452301, 0xEFCDAB89, 0x98BADCFE, 0x10325476, 0xC3D2E1F0];
    for chunk in md_pad(msg, 64, 8, true).chunks(64) {
        let mut w = [0u32; 80];
        for t in 0..16 {
            w[t] = u32::from_be_bytes([chunk[4 * t], chunk[4 * t + 1], chunk[4 * t + 2], chunk[4 * t + 3]]);
        }
        for t in 16..80 {
            w[t] = (w[t - 3] ^ w[t - 8] ^ w[t - 14] ^ w[t - 16]).rotate_left(1);
        }
        let (mut a, mut b, mut c, mut d, mut e) = (h[0], h[1], h[2], h[3], h[4]);
        for t in 0..80 {
            let (f, k) = match t / 20 {
                0 => ((b & c) | (!b & d), 0x5A827999u32),
                1 => (b ^ c ^ d, 0x6ED9EBA1),
                2 => ((b & c) | (b & d) | (c & d), 0x8F1BBCDC),
                _ => (b ^ c ^ d, 0xCA62C1D6),
            };
            let tmp = a.rotate_left(5).wrapping_add(f).wrapping_add(e).wrapping_add(k).wrapping_add(w[t]);
            e = d;
            d = c;
            c = b.rotate_left(30);
            b = a;
            a = tmp;
        }
        for (x, y) in h.iter_mut().zip([a, b, c, d, e]) {
            *x = x.wrapping_add(y);
        }
    }
    h.iter().flat_map(|x| x.to_be_bytes()).collect()
}

pub fn sha256(msg: &[u8]) -> Vec<u8> {
    let mut h = SHA256_H0;
    for chunk in md_pad(msg, 64, 8, true).chunks(64) {
        let mut w = [0u32; 64];
        for t in 0..16 {
            w[t] = u32::from_be_bytes([chunk[4 * t], chunk[4 * t + 1], chunk[4 * t + 2], chunk[4 * t + 3]]);
        }
        for t in 16..64 {
            let s0 = w[t - 15].rotate_right(7) ^ w[t - 15].rotate_right(18) ^ (w[t - 15] >> 3);
            let s1 = w[t - 2].rotate_right(17) ^ w[t - 2].rotate_right(19) ^ (w[t - 2] >> 10);
            w[t] = w[t - 16].wrapping_add(s0).wrapping_add(w[t - 7]).wrapping_add(s1);
        }
        let mut v = h;
        for t in 0..64 {
            let s1 = v[4].rotate_right(6) ^ v[4].rotate_right(11) ^ v[4].rotate_right(25);
            let ch = (v[4] & v[5]) ^ (!v[4] & v[6]);
            let t1 = v[7].wrapping_add(s1).wrapping_add(ch).wrapping_add(SHA256_K[t]).wrapping_add(w[t]);
            let s0 = v[0].rotate_right(2) ^ v[0].rotate_right(13) ^ v[0].rotate_right(22);
            let maj = (v[0] & v[1]) ^ (v[0] & v[2]) ^ (v[1] & v[2]);
            let t2 = s0.wrapping_add(maj);
            v = [t1.wrapping_add(t2), v[0], v[1], v[2], v[3].wrapping_add(t1), v[4], v[5], v[6]];
        }
        for i in 0..8 {
            h[i] = h[i].wrapping_add(v[i]);
        }
    }
    h.iter().flat_map(|x| x.to_be_bytes()).collect()
}

pub fn sha512(msg: &[u8]) -> Vec<u8> {
    let mut h = SHA512_H0;
    for chunk in md_pad(msg, 128, 16, true).chunks(128) {
        let mut w = [0u64; 80];
        for t in 0..16 {
            let mut b = [0u8; 8];
            b.copy_from_slice(&chunk[8 * t..8 * t + 8]);
            w[t] = u64::from_be_bytes(b);
        }
        for t in 16..80 {
            let s0 = w[t - 15].rotate_right(1) ^ w[t - 15].rotate_right(8) ^ (w[t - 15] >> 7);
            let s1 = w[t - 2].rotate_right(19) ^ w[t - 2].rotate_right(61) ^ (w[t - 2] >> 6);
            w[t] = w[t - 16].wrapping_add(s0).wrapping_add(w[t - 7]).wrapping_add(s1);
        }
        let mut v = h;
        for t in 0..80 {
            let s1 = v[4].rotate_right(14) ^ v[4].rotate_right(18) ^ v[4].rotate_right(41);
            let ch = (v[4] & v[5]) ^ (!v[4] & v[6]);
            let t1 = v[7].wrapping_add(s1).wrapping_add(ch).wrapping_add(SHA512_K[t]).wrapping_add(w[t]);
            let s0 = v[0].rotate_right(28) ^ v[0].rotate_right(34) ^ v[0].rotate_right(39);
            let maj = (v[0] & v[1]) ^ (v[0] & v[2]) ^ (v[1] & v[2]);
            let t2 = s0.wrapping_add(maj);
            v = [t1.wrapping_add(t2), v[0], v[1], v[2], v[3].wrapping_add(t1), v[4], v[5], v[6]];
        }
        for i in 0..8 {
            h[i] = h[i].wrapping_add(v[i]);
        }
    }
    h.iter().flat_map(|x| x.to_be_bytes()).collect()
}

pub fn rmd160(msg: &[u8]) -> Vec<u8> {
    const R1: [usize; 80] = [
        0, 1, 2, 3, 4, 5, 6, 7, 8, 9, 10, 11, 12, 13, 14, 15, 7, 4, 13, 1, 10, 6, 15, 3, 12, 0, 9, 5, 2, 14, 11, 8, 3,
        10, 14, 4, 9, 15, 8, 1, 2, 7, 0, 6, 13, 11, 5, 12, 1, 9, 11, 10, 0, 8, 12, 4, 13, 3, 7, 15, 14, 5, 6, 2, 4, 0,
        5, 9, 7, 12, 2, 10, 14, 1, 3, 8, 11, 6, 15, 13,
    ];
    const R2: [usize; 80] = [
        5, 14, 7, 0, 9, 2, 11, 4, 13, 6, 15, 8, 1, 10, 3, 12, 6, 11, 3, 7, 0, 13, 5, 10, 14, 15, 8, 12, 4, 9, 1, 2, 15,
        5, 1, 3, 7, 14, 6, 9, 11, 8, 12, 2, 10, 0, 4, 13, 8, 6, 4, 1, 3, 11, 15, 0, 5, 12, 2, 13, 9, 7, 10, 14, 12, 15,
        10, 4, 1, 5, 8, 7, 6, 2, 13, 14, 0, 3, 9, 11,
    ];
    const S1: [u32; 80] = [
        11, 14, 15, 12, 5, 8, 7, 9, 11, 13, 14, 15, 6, 7, 9, 8, 7, 6, 8, 13, 11, 9, 7, 15, 7, 12, 15, 9, 11, 7, 13,
        12, 11, 13, 6, 7, 14, 9, 13, 15, 14, 8, 13, 6, 5, 12, 7, 5, 11, 12, 14, 15, 14, 15, 9, 8, 9, 14, 5, 6, 8, 6,
        5, 12, 9, 15, 5, 11, 6, 8, 13, 12, 5, 12, 13, 14, 11, 8, 5, 6,
    ];
    const S2: [u32; 80] = [
        8, 9, 9, 11, 13, 15, 15, 5, 7, 7, 8, 11, 14, 14, 12, 6, 9, 13, 15, 7, 12, 8, 9, 11, 7, 7, 12, 7, 6, 15, 13,
        11, 9, 7, 15, 11, 8, 6, 6, 14, 12, 13, 5, 14, 13, 13, 7, 5, 15, 5, 8, 11, 14, 14, 6, 14, 6, 9, 12, 9, 12, 5,
        15, 8, 8, 5, 12, 9, 12, 5, 14, 6, 8, 13, 6, 5, 15, 13, 11, 11,
    ];
    const K1: [u32; 5] = [0x00000000, 0x5A827999, 0x6ED9EBA1, 0x8F1BBCDC, 0xA953FD4E];
    const K2: [u32; 5] = [0x50A28BE6, 0x5C4DD124, 0x6D703EF3, 0x7A6D76E9, 0x00000000];
    fn f(j: usize, x: u32, y: u32, z: u32) -> u32 {
        match j / 16 {
            0 => x ^ y ^ z,
            1 => (x & y) | (!x & z),
            2 => (x | !y) ^ z,
            3 => (x & z) | (y & !z),
            _ => x ^ (y | !z),
        }
    }
    let mut h: [u32; 5] = [0x67452301, 0xEFCDAB89, 0x98BADCFE, 0x10325476, 0xC3D2E1F0];
    for chunk in md_pad(msg, 64, 8, false).chunks(64) {
        let x: Vec<u32> = chunk.chunks(4).map(|c| u32::from_le_bytes([c[0], c[1], c[2], c[3]])).collect();
        let (mut a1, mut b1, mut c1, mut d1, mut e1) = (h[0], h[1], h[2], h[3], h[4]);
        let (mut a2, mut b2, mut c2, mut d2, mut e2) = (h[0], h[1], h[2], h[3], h[4]);
        for j in 0..80 {
            let t = a1
                .wrapping_add(f(j, b1, c1, d1))
                .wrapping_add(x[R1[j]])
                .wrapping_add(K1[j / 16])
                .rotate_left(S1[j])
                .wrapping_add(e1);
            a1 = e1;
            e1 = d1;
            d1 = c1.rotate_left(10);
            c1 = b1;
            b1 = t;
            let t = a2
                .wrapping_add(f(79 - j, b2, c2, d2))
                .wrapping_add(x[R2[j]])
                .wrapping_add(K2[j / 16])
                .rotate_left(S2[j])
                .wrapping_add(e2);
            a2 = e2;
            e2 = d2;
            d2 = c2.rotate_left(10);
            c2 = b2;
            b2 = t;
        }
        let t = h[1].wrapping_add(c1).wrapping_add(d2);
        h[1] = h[2].wrapping_add(d1).wrapping_add(e2);
        h[2] = h[3].wrapping_add(e1).wrapping_add(a2);
        h[3] = h[4].wrapping_add(a1).wrapping_add(b2);
        h[4] = h[0].wrapping_add(b1).wrapping_add(c2);
        h[0] = t;
    }
    h.iter().flat_map(|x| x.to_le_bytes()).collect()
}

pub fn blake2s(msg: &[u8]) -> Vec<u8> {
    const SIGMA: [[usize; 16]; 10] = [
        [0, 1, 2, 3, 4, 5, 6, 7, 8, 9, 10, 11, 12, 13, 14, 15],
        [14, 10, 4, 8, 9, 15, 13, 6, 1, 12, 0, 2, 11, 7, 5, 3],
        [11, 8, 12, 0, 5, 2, 15, 13, 10, 14, 3, 6, 7, 1, 9, 4],
        [7, 9, 3, 1, 13, 12, 11, 14, 2, 6, 5, 10, 4, 0, 15, 8],
        [9, 0, 5, 7, 2, 4, 10, 15, 14, 1, 11, 12, 6, 8, 3, 13],
        [2, 12, 6, 10, 0, 11, 8, 3, 4, 13, 7, 5, 15, 14, 1, 9],
        [12, 5, 1, 15, 14, 13, 4, 10, 0, 7, 6, 3, 9, 2, 8, 11],
        [13, 11, 7, 14, 12, 1, 3, 9, 5, 0, 15, 4, 8, 6, 2, 10],
        [6, 15, 14, 9, 11, 3, 0, 8, 12, 2, 13, 7, 1, 4, 10, 5],
        [10, 2, 8, 4, 7, 6, 1, 5, 15, 11, 9, 14, 3, 12, 13, 0],
    ];
    let iv = SHA256_H0;
    let mut h = iv;
    h[0] ^= 0x01010000 ^ 32; // digest length 32, no key, fanout 1, depth 1
    fn g(v: &mut [u32; 16], a: usize, b: usize, c: usize, d: usize, x: u32, y: u32) {
        v[a] = v[a].wrapping_add(v[b]).wrapping_add(x);
        v[d] = (v[d] ^ v[a]).rotate_right(16);
        v[c] = v[c].wrapping_add(v[d]);
        v[b] = (v[b] ^ v[c]).rotate_right(12);
        v[a] = v[a].wrapping_add(v[b]).wrapping_add(y);
        v[d] = (v[d] ^ v[a]).rotate_right(8);
        v[c] = v[c].wrapping_add(v[d]);
        v[b] = (v[b] ^ v[c]).rotate_right(7);
    }
    let nblocks = if msg.is_empty() { 1 } else { (msg.len() + 63) / 64 };
    for bi in 0..nblocks {
        let start = bi * 64;
        let end = (start + 64).min(msg.len());
        let mut block = [0u8; 64];
        block[..end - start].copy_from_slice(&msg[start..end]);
        let last = bi + 1 == nblocks;
        let t = end as u64; // bytes compressed so far, including this block
        let m: Vec<u32> = block.chunks(4).map(|c| u32::from_le_bytes([c[0], c[1], c[2], c[3]])).collect();
        let mut v = [0u32; 16];
        v[..8].copy_from_slice(&h);
        v[8..].copy_from_slice(&iv);
        v[12] ^= t as u32;
        v[13] ^= (t >> 32) as u32;
        if last {
            v[14] = !v[14];
        }
        for r in 0..10 {
            let s = &SIGMA[r];
            g(&mut v, 0, 4, 8, 12, m[s[0]], m[s[1]]);
            g(&mut v, 1, 5, 9, 13, m[s[2]], m[s[3]]);
            g(&mut v, 2, 6, 10, 14, m[s[4]], m[s[5]]);
            g(&mut v, 3, 7, 11, 15, m[s[6]], m[s[7]]);
            g(&mut v, 0, 5, 10, 15, m[s[8]], m[s[9]]);
            g(&mut v, 1, 6, 11, 12, m[s[10]], m[s[11]]);
            g(&mut v, 2, 7, 8, 13, m[s[12]], m[s[13]]);
            g(&mut v, 3, 4, 9, 14, m[s[14]], m[s[15]]);
        }
        for i in 0..8 {
            h[i] ^= v[i] ^ v[i + 8];
        }
    }
    h.iter().flat_map(|x| x.to_le_bytes()).collect()
}

pub fn digest(alg: Alg, msg: &[u8]) -> String {
    hex(&match alg {
        Alg::Blake2s => blake2s(msg),
        Alg::Md5 => md5(msg),
        Alg::Rmd160 => rmd160(msg),
        Alg::Sha1 => sha1(msg),
        Alg::Sha256 => sha256(msg),
        Alg::Sha512 => sha512(msg),
    })
}

/// the input of the patch hash: every LF-terminated line containing "$NetBSD" removed;
/// a final unterminated line counts as terminated
pub fn patch_filter(bytes: &[u8]) -> Vec<u8> {
    let mut out = vec![];
    let mut lines: Vec<&[u8]> = bytes.split(|b| *b == b'\n').collect();
    if lines.last().map(|l| l.is_empty()).unwrap_or(false) {
        lines.pop(); // the piece after the final LF is not a line
    }
    for l in lines {
        if l.windows(7).any(|w| w == b"$NetBSD") {
            continue;
        }
        out.extend_from_slice(l);
        out.push(b'\n');
    }
    out
}

pub fn selfcheck() -> Result<(), String> {
    // published test vectors of each standard
    let million_a = vec![b'a'; 1_000_000];
    let vectors: &[(Alg, &[u8], &str)] = &[
        (Alg::Md5, b"", "d41d8cd98f00b204e9800998ecf8427e"),
        (Alg::Md5, b"abc", "900150983cd24fb0d6963f7d28e17f72"),
        (Alg::Md5, b"12345678901234567890123456789012345678901234567890123456789012345678901234567890", "57edf4a22be3c955ac49da2e2107b67a"),
        (Alg::Sha1, b"", "da39a3ee5e6b4b0d3255bfef95601890afd80709"),
        (Alg::Sha1, b"abc", "a9993e364706816aba3e25717850c26c9cd0d89d"),
        (Alg::Sha1, b"abcdbcdecdefdefgefghfghighijhijkijkljklmklmnlmnomnopnopq", "84983e441c3bd26ebaae4aa1f95129e5e54670f1"),
        (Alg::Sha256, b"", "e3b0c44298fc1c149afbf4c8996fb92427ae41e4649b934ca495991b7852b855"),
        (Alg::Sha256, b"abc", "ba7816bf8f01cfea414140de5dae2223b00361a396177a9cb410ff61f20015ad"),
        (Alg::Sha256, b"abcdbcdecdefdefgefghfghighijhijkijkljklmklmnlmnomnopnopq", "248d6a61d20638b8e5c026930c3e6039a33ce45964ff2167f6ecedd419db06c1"),
        (Alg::Sha512, b"", "cf83e1357eefb8bdf1542850d66d8007d620e4050b5715dc83f4a921d36ce9ce47d0d13c5d85f2b0ff8318d2877eec2f63b931bd47417a81a538327af927da3e"),
        (Alg::Sha512, b"abc", "ddaf35a193617abacc417349ae20413112e6fa4e89a97ea20a9eeee64b55d39a2192992a274fc1a836ba3c23a3feebbd454d4423643ce80e2a9ac94fa54ca49f"),
        (Alg::Sha512, b"abcdefghbcdefghicdefghijdefghijkefghijklfghijklmghijklmnhijklmnoijklmnopjklmnopqklmnopqrlmnopqrsmnopqrstnopqrstu", "8e959b75dae313da8cf4f72814fc143f8f7779c6eb9f7fa17299aeadb6889018501d289e4900f7e4331b99dec4b5433ac7d329eeb6dd26545e96e55b874be909"),
        (Alg::Rmd160, b"", "9c1185a5c5e9fc54612808977ee8f548b2258d31"),
        (Alg::Rmd160, b"abc", "8eb208f7e05d987a9b044a8e98c6b087f15a0bfc"),
        (Alg::Rmd160, b"abcdbcdecdefdefgefghfghighijhijkijkljklmklmnlmnomnopnopq", "12a053384a9c0c88e405a06c27dcf49ada62eb2b"),
        (Alg::Blake2s, b"", "69217a3079908094e11121d042354a7c1f55b6482ca1a51e1b250dfd1ed0eef9"),
        (Alg::Blake2s, b"abc", "508c5e8c327c14e2e1a72ba34eeb452f37458b209ed63a294d999b4c86675982"),
    ];
    for (alg, msg, want) in vectors {
        let got = digest(*alg, msg);
        if got != *want {
            return Err(format!("{} test vector {:?}: {} != {}", alg.name(), String::from_utf8_lossy(msg), got, want));
        }
    }
    let big: &[(Alg, &str)] = &[
        (Alg::Md5, "7707d6ae4e027c70eea2a935c2296f21"),
        (Alg::Sha1, "34aa973cd4c4daa4f61eeb2bdbad27316534016f"),
        (Alg::Sha256, "cdc76e5c9914fb9281a1c7e284d73e67f1809a48a497200e046d39ccc7112cd0"),
        (Alg::Rmd160, "52783243c1697bdbe16d37f97f68f08325dc1528"),
        (Alg::Sha512, "e718483d0ce769644e2e42c7bc15b4638e1f98b13b2044285632a803afa973ebde0ff244877ea60a4cb0432ce577c31beb009c5c2c49aa2e4eadb217ad8cc09b"),
    ];
    for (alg, want) in big {
        if digest(*alg, &million_a) != *want {
            return Err(format!("{} million-a vector", alg.name()));
        }
    }
    if patch_filter(b"a\n$NetBSD: x $\nb") != b"a\nb\n" || patch_filter(b"") != b"" || patch_filter(b"\n") != b"\n"
        || patch_filter(b"x $NetBSD$") != b"" || patch_filter(b"$NetBS\nNetBSD\n") != b"$NetBS\nNetBSD\n"
    {
        return Err("patch_filter".into());
    }
    Ok(())
}
