//! M-path: which strings are category/package paths (C19).

/// Split on '/'; a leading '/' is the root (reject); empty segments and every '.' segment
/// except a leading one are dropped; accept exactly [N,N] or [..,..,N,N] with ordinary names N.
pub fn normalise(s: &str) -> Option<Vec<&str>> {
    if s.starts_with('/') {
        return None;
    }
    let mut out = vec![];
    for (i, seg) in s.split('/').enumerate() {
        if seg.is_empty() {
            continue;
        }
        if seg == "." && (i > 0 || !out.is_empty()) {
            // non-leading '.'
            if i == 0 {
                out.push(seg);
            }
            continue;
        }
        out.push(seg);
    }
    Some(out)
}

fn ordinary(s: &str) -> bool {
    s != "." && s != ".." && !s.is_empty()
}

/// Some((category, package)) when accepted
pub fn parse(s: &str) -> Option<(String, String)> {
    let segs = normalise(s)?;
    match segs.as_slice() {
        [c, p] if ordinary(c) && ordinary(p) => Some((c.to_string(), p.to_string())),
        ["..", "..", c, p] if ordinary(c) && ordinary(p) => Some((c.to_string(), p.to_string())),
        _ => None,
    }
}

pub fn accepts(s: &str) -> bool {
    parse(s).is_some()
}

pub fn selfcheck() -> Result<(), String> {
    for good in ["foo/bar", "foo//bar", "foo//bar//", "../../foo/bar", "../../foo/bar/", "..//..//foo//bar//", "foo/./bar", "../.././foo/bar/."] {
        if parse(good) != Some(("foo".into(), "bar".into())) {
            return Err(format!("should accept {:?}: {:?}", good, parse(good)));
        }
    }
    for bad in ["", "foo", "foo/", "./foo", "./foo/", "./foo/bar", "../foo", "../foo/bar", "../foo/bar/ojnk", "../..", "../../", "../../foo", "../../foo/bar/ojnk",
                "/foo/bar", "foo/..", "../bar", "../../../foo/bar", "foo/../bar", ".", "./.", "../../foo/.."] {
        if accepts(bad) {
            return Err(format!("should reject {:?}", bad));
        }
    }
    if parse(".. /../foo/bar").is_some() || parse("a/.. ") != Some(("a".into(), ".. ".into())) {
        return Err("'.. ' is an ordinary name".into());
    }
    Ok(())
}
