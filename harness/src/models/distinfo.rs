//! M-distinfo: reference model of the distinfo format (line recognition, classification,
//! ordered maps, canonical printing), written from the statements of C10 / C11 / C12.

use super::hash::Alg;

#[derive(Clone, Copy, Debug, PartialEq, Eq)]
pub enum Kind {
    Distfile,
    Patchfile,
}

fn starts(h: &[u8], n: &[u8]) -> bool {
    h.len() >= n.len() && &h[..n.len()] == n
}
fn ends(h: &[u8], n: &[u8]) -> bool {
    h.len() >= n.len() && &h[h.len() - n.len()..] == n
}
fn contains(h: &[u8], n: &[u8]) -> bool {
    h.len() >= n.len() && h.windows(n.len()).any(|w| w == n)
}

/// the rule on one path component
pub fn classify_component(b: &[u8]) -> Kind {
    if starts(b, b"patch-local-") || ends(b, b".orig") || ends(b, b".rej") || ends(b, b"~") {
        return Kind::Distfile;
    }
    if (starts(b, b"patch-") || (starts(b, b"emul-") && contains(b, b"-patch-"))) && !contains(b, b".tar.") {
        return Kind::Patchfile;
    }
    Kind::Distfile
}

pub fn basename(name: &[u8]) -> &[u8] {
    name.rsplit(|b| *b == b'/').find(|c| !c.is_empty()).unwrap_or(b"")
}

/// classification of a file name: the rule applied to its last path component
pub fn classify(name: &[u8]) -> Kind {
    classify_component(basename(name))
}

/// names on which "the rule" is unambiguous whichever part of the name it is applied to
pub fn unambiguous(name: &[u8]) -> bool {
    classify_component(name) == classify(name)
}

/// the name as a path compares: empty and non-leading "." components dropped, a leading '/' kept
/// (two recorded names with the same key are one entry to the library, which keys by path)
pub fn path_key(name: &[u8]) -> Vec<Vec<u8>> {
    let mut key = vec![];
    if name.first() == Some(&b'/') {
        key.push(b"/".to_vec());
    }
    for (i, c) in name.split(|b| *b == b'/').enumerate() {
        if c.is_empty() || (c == b"." && i > 0) {
            continue;
        }
        key.push(c.to_vec());
    }
    key
}

/// names the checks take: no white space, a last component other than "." and "..",
/// and the classification rule unambiguous; doubled, trailing and leading '/' and interior "."
/// components are all part of "any non-whitespace bytes"
pub fn name_in_domain(name: &[u8]) -> bool {
    let base = basename(name);
    !name.is_empty()
        && !name.iter().any(|b| is_ws(*b))
        && !base.is_empty()
        && base != b"."
        && base != b".."
        && unambiguous(name)
}

#[derive(Clone, Debug, PartialEq, Eq)]
pub enum Line {
    RcsId(Vec<u8>),
    Checksum(Alg, Vec<u8>, String),
    Size(Vec<u8>, u64),
    None,
}

pub fn is_ws(b: u8) -> bool {
    matches!(b, 0x09..=0x0d | 0x20)
}

pub fn parse_u64(s: &str) -> Option<u64> {
    if s.is_empty() || !s.bytes().all(|b| b.is_ascii_digit()) {
        return None;
    }
    s.parse::<u64>().ok()
}

/// recognise one line: `ALGORITHM (name) = hash` or `Size (name) = N bytes`
pub fn parse_line(line: &[u8]) -> Line {
    let start = line.iter().position(|b| !is_ws(*b)).unwrap_or(line.len());
    let line = &line[start..];
    if line.is_empty() || line[0] == b'#' {
        return Line::None;
    }
    if starts(line, b"$NetBSD: ") {
        return Line::RcsId(line.to_vec());
    }
    let f: Vec<&[u8]> = line.split(|b| is_ws(*b)).filter(|s| !s.is_empty()).collect();
    if f.len() < 4 || f[2] != b"=" {
        return Line::None;
    }
    if f[1].len() < 2 || f[1][0] != b'(' || f[1][f[1].len() - 1] != b')' {
        return Line::None;
    }
    let name = f[1][1..f[1].len() - 1].to_vec();
    let Ok(action) = std::str::from_utf8(f[0]) else {
        return Line::None;
    };
    let Ok(value) = std::str::from_utf8(f[3]) else {
        return Line::None;
    };
    if action == "Size" {
        return match parse_u64(value) {
            Some(n) => Line::Size(name, n),
            None => Line::None,
        };
    }
    match Alg::from_name_ci(action) {
        Some(a) => Line::Checksum(a, name, value.to_string()),
        None => Line::None,
    }
}

#[derive(Clone, Debug, PartialEq, Eq, Default)]
pub struct File {
    pub name: Vec<u8>,
    pub checksums: Vec<(Alg, String)>,
    pub size: Option<u64>,
}

#[derive(Clone, Debug, PartialEq, Eq, Default)]
pub struct Doc {
    pub rcsid: Option<Vec<u8>>,
    pub distfiles: Vec<File>,
    pub patchfiles: Vec<File>,
}

impl Doc {
    fn slot(&mut self, name: &[u8]) -> &mut File {
        let list = match classify(name) {
            Kind::Distfile => &mut self.distfiles,
            Kind::Patchfile => &mut self.patchfiles,
        };
        if let Some(i) = list.iter().position(|f| f.name == name) {
            return &mut list[i];
        }
        list.push(File { name: name.to_vec(), ..Default::default() });
        list.last_mut().unwrap()
    }
}

pub fn parse(text: &[u8]) -> Doc {
    let mut d = Doc::default();
    for l in text.split(|b| *b == b'\n') {
        match parse_line(l) {
            Line::RcsId(r) => d.rcsid = Some(r),
            Line::Checksum(a, n, h) => d.slot(&n).checksums.push((a, h)),
            Line::Size(n, s) => d.slot(&n).size = Some(s),
            Line::None => {}
        }
    }
    d
}

pub fn print_file(f: &File, with_size: bool) -> Vec<u8> {
    let mut out = vec![];
    for (a, h) in &f.checksums {
        out.extend_from_slice(a.name().as_bytes());
        out.extend_from_slice(b" (");
        out.extend_from_slice(&f.name);
        out.extend_from_slice(b") = ");
        out.extend_from_slice(h.as_bytes());
        out.push(b'\n');
    }
    if let (true, Some(s)) = (with_size, f.size) {
        out.extend_from_slice(b"Size (");
        out.extend_from_slice(&f.name);
        out.extend_from_slice(format!(") = {} bytes\n", s).as_bytes());
    }
    out
}

/// canonical layout: RCS Id line, blank line, distfiles (checksums, size), patches (checksums)
pub fn print(d: &Doc) -> Vec<u8> {
    let mut out = match &d.rcsid {
        Some(r) => r.clone(),
        None => b"$NetBSD$".to_vec(),
    };
    out.extend_from_slice(b"\n\n");
    for f in &d.distfiles {
        out.extend(print_file(f, true));
    }
    for f in &d.patchfiles {
        out.extend(print_file(f, false));
    }
    out
}

pub fn selfcheck() -> Result<(), String> {
    for (n, k) in [
        ("foo-1.0.tar.gz", Kind::Distfile),
        ("patch-aa", Kind::Patchfile),
        ("patch-src_main.c", Kind::Patchfile),
        ("emul-linux-patch-x", Kind::Patchfile),
        ("patch-local-x", Kind::Distfile),
        ("patch-a.orig", Kind::Distfile),
        ("patch-a.rej", Kind::Distfile),
        ("patch-a~", Kind::Distfile),
        ("patch-2.7.6.tar.xz", Kind::Distfile),
        ("foo.patch-1", Kind::Distfile),
        ("sub/dir/patch-aa", Kind::Patchfile),
        ("patch-dir/foo.tgz", Kind::Distfile),
        ("emul-x", Kind::Distfile),
        ("patch-", Kind::Patchfile),
    ] {
        if classify(n.as_bytes()) != k {
            return Err(format!("classify {}", n));
        }
    }
    if unambiguous(b"patch-dir/foo.tgz") || unambiguous(b"a/patch-x") || !unambiguous(b"d/foo.tgz") || !unambiguous(b"patch-x") {
        return Err("unambiguous".into());
    }
    let l = |s: &str| parse_line(s.as_bytes());
    if l("SHA1 (foo) = abc") != Line::Checksum(Alg::Sha1, b"foo".to_vec(), "abc".into()) {
        return Err("checksum line".into());
    }
    if l("  Size\t(foo)  =   12 bytes") != Line::Size(b"foo".to_vec(), 12) {
        return Err("size line".into());
    }
    for bad in ["", "# SHA1 (f) = x", "SHA1", "SHA1 (f)", "SHA1 (f) =", "Size (f) =", "Size (f) = -1 bytes", "Size (f) = 18446744073709551616 bytes",
                "SHA3 (f) = x", "Sizes (f) = 1 bytes", "SHA1 f = x", "$NetBSD$"] {
        if l(bad) != Line::None {
            return Err(format!("should be ignored: {:?}", bad));
        }
    }
    if l(" $NetBSD: distinfo,v 1.1 $") != Line::RcsId(b"$NetBSD: distinfo,v 1.1 $".to_vec()) {
        return Err("rcsid".into());
    }
    let text = b"$NetBSD: x $\n\nSHA1 (a.tgz) = 11\nRMD160 (a.tgz) = 22\nSize (a.tgz) = 5 bytes\nSHA1 (patch-aa) = 33\n";
    let d = parse(text);
    if d.distfiles.len() != 1 || d.patchfiles.len() != 1 || d.distfiles[0].size != Some(5) || d.distfiles[0].checksums.len() != 2 {
        return Err(format!("parse {:?}", d));
    }
    if print(&d) != text {
        return Err("print(parse(x)) != x".into());
    }
    Ok(())
}
