//! M-dewey: reference model of pkg_install's dewey version ordering, written from
//! the statement of property C01 (shares no code with /repo).

use std::cmp::Ordering;

#[derive(Clone, Copy, Debug, PartialEq, Eq)]
pub enum Op {
    Lt,
    Le,
    Gt,
    Ge,
}

pub const OPS: [Op; 4] = [Op::Lt, Op::Le, Op::Gt, Op::Ge];

impl Op {
    pub fn text(self) -> &'static str {
        match self {
            Op::Lt => "<",
            Op::Le => "<=",
            Op::Gt => ">",
            Op::Ge => ">=",
        }
    }
    pub fn holds(self, o: Ordering) -> bool {
        match self {
            Op::Lt => o == Ordering::Less,
            Op::Le => o != Ordering::Greater,
            Op::Gt => o == Ordering::Greater,
            Op::Ge => o != Ordering::Less,
        }
    }
    pub fn is_lower_bound(self) -> bool {
        matches!(self, Op::Gt | Op::Ge)
    }
}

/// How a plain ASCII letter is encoded.
#[derive(Clone, Copy, Debug, PartialEq, Eq)]
pub enum Letters {
    /// pkg_install: (0, alphabet rank 1..26) — the property's statement
    Rank,
    /// (0, ASCII code of the lower-case letter) — delimits known finding KF-1
    AsciiLower,
}

#[derive(Clone, Debug, PartialEq, Eq)]
pub struct Version {
    pub comps: Vec<i64>,
    pub rev: i64,
}

fn ci_prefix(s: &[char], p: &str) -> bool {
    let pc: Vec<char> = p.chars().collect();
    s.len() >= pc.len()
        && s.iter()
            .zip(pc.iter())
            .all(|(a, b)| a.is_ascii() && a.to_ascii_lowercase() == *b)
}

fn digits_value(d: &[char]) -> i64 {
    // domain: at most 18 digits; longer runs saturate (outside the domain of C01)
    let mut v: i64 = 0;
    for c in d {
        let x = (*c as u8 - b'0') as i64;
        v = match v.checked_mul(10).and_then(|v| v.checked_add(x)) {
            Some(v) => v,
            None => return i64::MAX,
        };
    }
    v
}

pub fn mk(s: &str, letters: Letters) -> Version {
    let cs: Vec<char> = s.chars().collect();
    let mut comps = vec![];
    let mut rev = 0i64;
    let mut i = 0;
    while i < cs.len() {
        let c = cs[i];
        if c.is_ascii_digit() {
            let mut j = i;
            while j < cs.len() && cs[j].is_ascii_digit() {
                j += 1;
            }
            comps.push(digits_value(&cs[i..j]));
            i = j;
            continue;
        }
        let rest = &cs[i..];
        if ci_prefix(rest, "alpha") {
            comps.push(-3);
            i += 5;
        } else if ci_prefix(rest, "beta") {
            comps.push(-2);
            i += 4;
        } else if ci_prefix(rest, "pre") {
            comps.push(-1);
            i += 3;
        } else if ci_prefix(rest, "rc") {
            comps.push(-1);
            i += 2;
        } else if ci_prefix(rest, "pl") {
            comps.push(0);
            i += 2;
        } else if c == '.' || c == '_' {
            comps.push(0);
            i += 1;
        } else if ci_prefix(rest, "nb") {
            let mut j = i + 2;
            while j < cs.len() && cs[j].is_ascii_digit() {
                j += 1;
            }
            rev = if j > i + 2 { digits_value(&cs[i + 2..j]) } else { 0 };
            i = j;
        } else if c.is_ascii_alphabetic() {
            comps.push(0);
            let lc = c.to_ascii_lowercase();
            comps.push(match letters {
                Letters::Rank => (lc as u8 - b'a') as i64 + 1,
                Letters::AsciiLower => lc as i64,
            });
            i += 1;
        } else {
            i += 1; // every other character is ignored
        }
    }
    Version { comps, rev }
}

pub fn cmp_versions(a: &Version, b: &Version) -> Ordering {
    let n = a.comps.len().max(b.comps.len());
    for i in 0..n {
        let x = a.comps.get(i).copied().unwrap_or(0);
        let y = b.comps.get(i).copied().unwrap_or(0);
        if x != y {
            return x.cmp(&y);
        }
    }
    a.rev.cmp(&b.rev)
}

pub fn cmp(a: &str, b: &str, letters: Letters) -> Ordering {
    cmp_versions(&mk(a, letters), &mk(b, letters))
}

/// does version text `a` satisfy `a op b` ?
pub fn verdict(a: &str, op: Op, b: &str, letters: Letters) -> bool {
    op.holds(cmp(a, b, letters))
}

/// longest run of ASCII digits in `s`
pub fn longest_digit_run(s: &str) -> usize {
    let mut best = 0;
    let mut cur = 0;
    for c in s.chars() {
        if c.is_ascii_digit() {
            cur += 1;
            best = best.max(cur);
        } else {
            cur = 0;
        }
    }
    best
}

/// every number of `s` is inside the domain of exact comparison: at most 18 digits, or 19 digits
/// and not above i64::MAX (larger values saturate and are outside the domain of C01)
pub fn numbers_in_domain(s: &str) -> bool {
    let cs: Vec<char> = s.chars().collect();
    let mut i = 0;
    while i < cs.len() {
        if cs[i].is_ascii_digit() {
            let mut j = i;
            while j < cs.len() && cs[j].is_ascii_digit() {
                j += 1;
            }
            let run: String = cs[i..j].iter().collect();
            if run.len() > 19 || (run.len() == 19 && run.as_str() > "9223372036854775807") {
                return false;
            }
            i = j;
        } else {
            i += 1;
        }
    }
    true
}

/// cap every ASCII digit run of `s` at `max` digits (drops the excess digits); with `max` = 18 a
/// run of exactly 19 digits that is not above i64::MAX is kept (see `numbers_in_domain`)
pub fn cap_digit_runs(s: &str, max: usize) -> String {
    let cs: Vec<char> = s.chars().collect();
    let mut out = String::with_capacity(s.len());
    let mut i = 0;
    while i < cs.len() {
        if cs[i].is_ascii_digit() {
            let mut j = i;
            while j < cs.len() && cs[j].is_ascii_digit() {
                j += 1;
            }
            let run: String = cs[i..j].iter().collect();
            if run.len() <= max || (max == 18 && run.len() == 19 && run.as_str() <= "9223372036854775807") {
                out.push_str(&run);
            } else {
                out.push_str(&run[..max]);
            }
            i = j;
        } else {
            out.push(cs[i]);
            i += 1;
        }
    }
    out
}

pub fn selfcheck() -> Result<(), String> {
    use Letters::Rank;
    let v = mk("1.0alpha1beta2rc3pl4_5nb17", Rank);
    if v.comps != vec![1, 0, 0, -3, 1, -2, 2, -1, 3, 0, 4, 0, 5] || v.rev != 17 {
        return Err(format!("mk modifiers: {:?}", v));
    }
    let v = mk("1.0PRE2NB3é-+", Rank);
    if v.comps != vec![1, 0, 0, -1, 2] || v.rev != 3 {
        return Err(format!("mk pre/NB: {:?}", v));
    }
    let v = mk("2b", Rank);
    if v.comps != vec![2, 0, 2] {
        return Err(format!("mk letter: {:?}", v));
    }
    if mk("2B", Rank) != mk("2b", Rank) {
        return Err("letters must be case-insensitive".into());
    }
    let checks: &[(&str, Op, &str, bool)] = &[
        ("1.0", Op::Ge, "1", true),
        ("1", Op::Ge, "1.0", true),
        ("1.0rc1", Op::Lt, "1.0", true),
        ("1.0pre1", Op::Lt, "1.0", true),
        ("1.0alpha", Op::Lt, "1.0beta", true),
        ("1.0beta", Op::Lt, "1.0rc", true),
        ("1.0pl1", Op::Gt, "1.0", true),
        ("1.0nb1", Op::Gt, "1.0", true),
        ("1.0nb1", Op::Lt, "1.0.1", true),
        ("1.0a", Op::Gt, "1.0", true),
        ("1.0a", Op::Lt, "1.0.50", true), // rank 1 < 50 (KF-1 witness in the crate)
        ("1.0a", Op::Lt, "1.0.1", false), // a = (0,1) equals .1 = (0,1)
        ("1.0a", Op::Le, "1.0.1", true),
        ("", Op::Ge, "0", true),
        ("1_0", Op::Le, "1.0", true),
        ("1_0", Op::Ge, "1.0", true),
    ];
    for (a, op, b, exp) in checks {
        if verdict(a, *op, b, Rank) != *exp {
            return Err(format!("verdict {} {} {} should be {}", a, op.text(), b, exp));
        }
    }
    if cap_digit_runs("a1234567890123456789012b12", 18) != "a123456789012345678b12" {
        return Err("cap_digit_runs".into());
    }
    Ok(())
}
