//! M-plist: line-level reference model of the PLIST format and of the query views,
//! written from the statements of C14 / C15.  Produces values of the crate's *public*
//! `PlistEntry` enum (data only) so that results can be compared with `==`.

use pkgsrc::plist::{PlistEntry, PlistOption};
use std::ffi::OsString;
use std::os::unix::ffi::OsStringExt;

#[derive(Clone, Copy, Debug, PartialEq, Eq)]
pub enum ErrKind {
    UnsupportedCommand,
    IncorrectArguments,
    Utf8,
    /// `@option` with an argument other than `preserve`: only *an* error is required
    AnyError,
}

pub fn is_ascii_ws(b: u8) -> bool {
    matches!(b, 0x09..=0x0d | 0x20)
}

/// bytes whose white-space status the statement leaves open for a byte-oriented format
pub fn is_ambiguous_ws(b: u8) -> bool {
    matches!(b, 0x85 | 0xa0)
}

/// a line is blank when it holds no non-whitespace byte
pub fn is_blank(line: &[u8]) -> bool {
    line.iter().all(|b| is_ascii_ws(*b))
}

fn os(b: &[u8]) -> OsString {
    OsString::from_vec(b.to_vec())
}

#[derive(Clone, Copy, PartialEq, Eq, Debug)]
enum ArgRule {
    Required,
    Optional,
    Forbidden,
}

/// parse one non-blank line (no LF inside)
pub fn parse_line(line: &[u8]) -> Result<PlistEntry, ErrKind> {
    if line.first() != Some(&b'@') {
        return Ok(PlistEntry::File(os(line)));
    }
    let (cmd, arg): (&[u8], Option<&[u8]>) = match line.iter().position(|b| *b == b' ') {
        None => (line, None),
        Some(i) => {
            let mut j = i;
            while j < line.len() && (line[j] == b' ' || line[j] == b'\t') {
                j += 1;
            }
            (&line[..i], if j == line.len() { None } else { Some(&line[j..]) })
        }
    };
    let need = |rule: ArgRule| -> Result<Option<&[u8]>, ErrKind> {
        match (rule, arg) {
            (ArgRule::Required, None) => Err(ErrKind::IncorrectArguments),
            (ArgRule::Forbidden, Some(_)) => Err(ErrKind::IncorrectArguments),
            (_, a) => Ok(a),
        }
    };
    let utf8 = |a: &[u8]| -> Result<String, ErrKind> {
        String::from_utf8(a.to_vec()).map_err(|_| ErrKind::Utf8)
    };
    use ArgRule::*;
    match cmd {
        b"@cwd" | b"@src" | b"@cd" => Ok(PlistEntry::Cwd(os(need(Required)?.unwrap()))),
        b"@exec" => Ok(PlistEntry::Exec(os(need(Required)?.unwrap()))),
        b"@unexec" => Ok(PlistEntry::UnExec(os(need(Required)?.unwrap()))),
        b"@mode" => Ok(PlistEntry::Mode(match need(Optional)? {
            Some(a) => Some(utf8(a)?),
            None => None,
        })),
        b"@owner" => Ok(PlistEntry::Owner(match need(Optional)? {
            Some(a) => Some(utf8(a)?),
            None => None,
        })),
        b"@group" => Ok(PlistEntry::Group(match need(Optional)? {
            Some(a) => Some(utf8(a)?),
            None => None,
        })),
        b"@comment" => Ok(PlistEntry::Comment(need(Optional)?.map(os))),
        b"@ignore" => {
            need(Forbidden)?;
            Ok(PlistEntry::Ignore)
        }
        b"@name" => Ok(PlistEntry::Name(utf8(need(Required)?.unwrap())?)),
        b"@pkgdep" => Ok(PlistEntry::PkgDep(utf8(need(Required)?.unwrap())?)),
        b"@blddep" => Ok(PlistEntry::BldDep(utf8(need(Required)?.unwrap())?)),
        b"@pkgcfl" => Ok(PlistEntry::PkgCfl(utf8(need(Required)?.unwrap())?)),
        b"@pkgdir" => Ok(PlistEntry::PkgDir(os(need(Required)?.unwrap()))),
        b"@dirrm" => Ok(PlistEntry::DirRm(os(need(Required)?.unwrap()))),
        b"@display" => Ok(PlistEntry::Display(os(need(Required)?.unwrap()))),
        b"@option" => match arg {
            None => Err(ErrKind::IncorrectArguments),
            Some(b"preserve") => Ok(PlistEntry::PkgOpt(PlistOption::Preserve)),
            Some(_) => Err(ErrKind::AnyError),
        },
        _ => Err(ErrKind::UnsupportedCommand),
    }
}

/// split a document into its non-blank lines
pub fn non_blank_lines(doc: &[u8]) -> Vec<&[u8]> {
    doc.split(|b| *b == b'\n').filter(|l| !is_blank(l)).collect()
}

/// the whole document: entry list, or the kind of the first failing line
pub fn parse_doc(doc: &[u8]) -> Result<Vec<PlistEntry>, ErrKind> {
    non_blank_lines(doc).into_iter().map(parse_line).collect()
}

// ------------------------------------------------------------------ views (C15)

fn kept_files(entries: &[PlistEntry]) -> Vec<(usize, &OsString)> {
    // a file entry is dropped when an @ignore lies between it and the preceding file entry
    let mut out = vec![];
    let mut ignore = false;
    for (i, e) in entries.iter().enumerate() {
        match e {
            PlistEntry::Ignore => ignore = true,
            PlistEntry::File(f) => {
                if !ignore {
                    out.push((i, f));
                }
                ignore = false;
            }
            _ => {}
        }
    }
    out
}

pub fn files(entries: &[PlistEntry]) -> Vec<OsString> {
    kept_files(entries).into_iter().map(|(_, f)| f.clone()).collect()
}

pub fn files_prefixed(entries: &[PlistEntry]) -> Vec<OsString> {
    use std::os::unix::ffi::OsStrExt;
    kept_files(entries)
        .into_iter()
        .map(|(i, f)| {
            let mut p: Vec<u8> = entries[..i]
                .iter()
                .rev()
                .find_map(|e| match e {
                    PlistEntry::Cwd(d) => Some(d.as_bytes().to_vec()),
                    _ => None,
                })
                .unwrap_or_default();
            if p.last() != Some(&b'/') {
                p.push(b'/');
            }
            p.extend_from_slice(f.as_bytes());
            OsString::from_vec(p)
        })
        .collect()
}

/// indices of the entries in the install (uninstall) command list
pub fn cmd_indices(entries: &[PlistEntry], uninstall: bool) -> Vec<usize> {
    let kept: Vec<usize> = kept_files(entries).into_iter().map(|(i, _)| i).collect();
    entries
        .iter()
        .enumerate()
        .filter(|(i, e)| match e {
            PlistEntry::File(_) => kept.contains(i),
            PlistEntry::Cwd(_)
            | PlistEntry::Mode(_)
            | PlistEntry::Owner(_)
            | PlistEntry::Group(_)
            | PlistEntry::PkgDir(_) => true,
            PlistEntry::Exec(_) => !uninstall,
            PlistEntry::UnExec(_) | PlistEntry::DirRm(_) => uninstall,
            _ => false,
        })
        .map(|(i, _)| i)
        .collect()
}

pub fn selfcheck() -> Result<(), String> {
    let e = |s: &str| parse_line(s.as_bytes());
    if e("bin/foo") != Ok(PlistEntry::File("bin/foo".into())) {
        return Err("file".into());
    }
    if e(" @cwd /x") != Ok(PlistEntry::File(" @cwd /x".into())) {
        return Err("leading blank is a file".into());
    }
    if e("@cwd  \t /opt ") != Ok(PlistEntry::Cwd("/opt ".into())) {
        return Err("cwd arg".into());
    }
    if e("@cwd") != Err(ErrKind::IncorrectArguments) || e("@cwd   ") != Err(ErrKind::IncorrectArguments) {
        return Err("cwd needs arg".into());
    }
    if e("@ignore x") != Err(ErrKind::IncorrectArguments) || e("@ignore ") != Ok(PlistEntry::Ignore) {
        return Err("ignore".into());
    }
    if e("@mode") != Ok(PlistEntry::Mode(None)) || e("@mode 0644") != Ok(PlistEntry::Mode(Some("0644".into()))) {
        return Err("mode".into());
    }
    if parse_line(b"@owner \xf8") != Err(ErrKind::Utf8) {
        return Err("owner utf8".into());
    }
    if e("@foo") != Err(ErrKind::UnsupportedCommand) || e("@cwd\t/x") != Err(ErrKind::UnsupportedCommand) {
        return Err("unsupported".into());
    }
    if e("@option preserve") != Ok(PlistEntry::PkgOpt(PlistOption::Preserve)) {
        return Err("option".into());
    }
    let doc = b"a\n\n  \n@ignore\nb\n@cwd /p/\nc";
    let es = parse_doc(doc).map_err(|e| format!("{:?}", e))?;
    if es.len() != 5 {
        return Err(format!("doc entries {}", es.len()));
    }
    if files(&es) != vec![OsString::from("a"), OsString::from("c")] {
        return Err("files view".into());
    }
    if files_prefixed(&es) != vec![OsString::from("/a"), OsString::from("/p/c")] {
        return Err("files_prefixed view".into());
    }
    if cmd_indices(&es, false) != vec![0, 3, 4] {
        return Err("install indices".into());
    }
    Ok(())
}
