pub mod dewey;
pub mod plist;
pub mod pattern;
pub mod summary;
pub mod hash;
pub mod distinfo;
pub mod pkgpath;
