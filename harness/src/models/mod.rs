pub mod dewey;
pub mod plist;
