pub mod dewey;
