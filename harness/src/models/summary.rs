//! M-summary: reference model of pkg_summary(5) entries (print / parse / call histories),
//! written from the statements of C07 / C08.

use serde::{Deserialize, Serialize};
use std::collections::BTreeMap;

#[derive(Clone, Copy, Debug, PartialEq, Eq)]
pub enum Kind {
    Scalar,
    Int,
    List,
}

/// the 23 variables in pkg_summary order: (name, kind, required)
pub const VARS: [(&str, Kind, bool); 23] = [
    ("BUILD_DATE", Kind::Scalar, true),
    ("CATEGORIES", Kind::Scalar, true),
    ("COMMENT", Kind::Scalar, true),
    ("CONFLICTS", Kind::List, false),
    ("DEPENDS", Kind::List, false),
    ("DESCRIPTION", Kind::List, true),
    ("FILE_CKSUM", Kind::Scalar, false),
    ("FILE_NAME", Kind::Scalar, false),
    ("FILE_SIZE", Kind::Int, false),
    ("HOMEPAGE", Kind::Scalar, false),
    ("LICENSE", Kind::Scalar, false),
    ("MACHINE_ARCH", Kind::Scalar, true),
    ("OPSYS", Kind::Scalar, true),
    ("OS_VERSION", Kind::Scalar, true),
    ("PKG_OPTIONS", Kind::Scalar, false),
    ("PKGNAME", Kind::Scalar, true),
    ("PKGPATH", Kind::Scalar, true),
    ("PKGTOOLS_VERSION", Kind::Scalar, true),
    ("PREV_PKGPATH", Kind::Scalar, false),
    ("PROVIDES", Kind::List, false),
    ("REQUIRES", Kind::List, false),
    ("SIZE_PKG", Kind::Int, true),
    ("SUPERSEDES", Kind::List, false),
];

pub fn var_index(name: &str) -> Option<usize> {
    VARS.iter().position(|(n, _, _)| *n == name)
}

pub fn required() -> Vec<usize> {
    (0..VARS.len()).filter(|i| VARS[*i].2).collect()
}

#[derive(Clone, Debug, PartialEq, Eq, Serialize, Deserialize)]
pub enum Val {
    S(String),
    I(i64),
    L(Vec<String>),
}

pub type Assignment = BTreeMap<usize, Val>;

/// one 'VAR=value' line per value, variables in the fixed pkg_summary order
pub fn print(a: &Assignment) -> String {
    let mut out = String::new();
    for (i, v) in a {
        let name = VARS[*i].0;
        match v {
            Val::S(s) => out.push_str(&format!("{}={}\n", name, s)),
            Val::I(n) => out.push_str(&format!("{}={}\n", name, n)),
            Val::L(l) => {
                for s in l {
                    out.push_str(&format!("{}={}\n", name, s));
                }
            }
        }
    }
    out
}

#[derive(Clone, Debug, PartialEq, Eq, Serialize, Deserialize)]
pub enum Call {
    Set(usize, Val),
    Push(usize, String),
}

/// model interpretation of a call history: set replaces, push appends (creating the list)
pub fn apply(history: &[Call]) -> Assignment {
    let mut a = Assignment::new();
    for c in history {
        match c {
            Call::Set(i, v) => {
                a.insert(*i, v.clone());
            }
            Call::Push(i, s) => match a.get_mut(i) {
                Some(Val::L(l)) => l.push(s.clone()),
                _ => {
                    a.insert(*i, Val::L(vec![s.clone()]));
                }
            },
        }
    }
    a
}

#[derive(Clone, Debug, PartialEq, Eq)]
pub enum ParseErr {
    /// a line without '=' (payload: the line)
    Line(String),
    /// unknown variable name (payload: the name)
    Var(String),
    /// FILE_SIZE / SIZE_PKG not an integer
    Int,
    /// first missing required variable in pkg_summary order
    Missing(usize),
}

pub fn is_int(s: &str) -> Option<i64> {
    let digits = s.strip_prefix(['+', '-']).unwrap_or(s);
    if digits.is_empty() || !digits.bytes().all(|b| b.is_ascii_digit()) {
        return None;
    }
    s.strip_prefix('+').unwrap_or(s).parse::<i64>().ok()
}

/// split into lines the way a text file is read: at LF, a final LF does not start a new line
pub fn lines(text: &str) -> Vec<&str> {
    let mut v: Vec<&str> = text.split('\n').collect();
    if v.last() == Some(&"") {
        v.pop();
    }
    v
}

pub fn parse(text: &str) -> Result<Assignment, ParseErr> {
    let mut a = Assignment::new();
    for line in lines(text) {
        let Some(eq) = line.find('=') else {
            return Err(ParseErr::Line(line.to_string()));
        };
        let (name, value) = (&line[..eq], &line[eq + 1..]);
        let Some(i) = var_index(name) else {
            return Err(ParseErr::Var(name.to_string()));
        };
        match VARS[i].1 {
            Kind::Scalar => {
                a.insert(i, Val::S(value.to_string()));
            }
            Kind::Int => match is_int(value) {
                Some(n) => {
                    a.insert(i, Val::I(n));
                }
                None => return Err(ParseErr::Int),
            },
            Kind::List => match a.get_mut(&i) {
                Some(Val::L(l)) => l.push(value.to_string()),
                _ => {
                    a.insert(i, Val::L(vec![value.to_string()]));
                }
            },
        }
    }
    for i in required() {
        if !a.contains_key(&i) {
            return Err(ParseErr::Missing(i));
        }
    }
    Ok(a)
}

/// every cause that makes the text unacceptable (empty = acceptable).  With several causes
/// present the statement lets the parser report any one of them.
pub fn causes(text: &str) -> Vec<ParseErr> {
    let mut out = vec![];
    let mut seen = std::collections::BTreeSet::new();
    for line in lines(text) {
        let Some(eq) = line.find('=') else {
            out.push(ParseErr::Line(line.to_string()));
            continue;
        };
        let (name, value) = (&line[..eq], &line[eq + 1..]);
        match var_index(name) {
            None => out.push(ParseErr::Var(name.to_string())),
            Some(i) => {
                seen.insert(i);
                if VARS[i].1 == Kind::Int && is_int(value).is_none() {
                    out.push(ParseErr::Int);
                }
            }
        }
    }
    for i in required() {
        if !seen.contains(&i) {
            out.push(ParseErr::Missing(i));
        }
    }
    out
}

pub fn selfcheck() -> Result<(), String> {
    if VARS.len() != 23 || required().len() != 11 {
        return Err("variable table".into());
    }
    let mut sorted: Vec<&str> = VARS.iter().map(|v| v.0).collect();
    sorted.dedup();
    if sorted.len() != 23 {
        return Err("duplicate variable".into());
    }
    let txt = "BUILD_DATE=d\nCATEGORIES=c\nCOMMENT=a=b=c\nDESCRIPTION=l1\nDESCRIPTION=\nMACHINE_ARCH=m\nOPSYS=o\nOS_VERSION=v\nPKGNAME=p-1\nPKGPATH=c/p\nPKGTOOLS_VERSION=1\nSIZE_PKG=-5\n";
    let a = parse(txt).map_err(|e| format!("{:?}", e))?;
    if a.get(&2) != Some(&Val::S("a=b=c".into())) || a.get(&5) != Some(&Val::L(vec!["l1".into(), "".into()])) {
        return Err("parse values".into());
    }
    if print(&a) != txt {
        return Err("print(parse(x)) != x".into());
    }
    if parse("BUILD_DATE=d\nfoo\n") != Err(ParseErr::Line("foo".into())) {
        return Err("line error".into());
    }
    if parse("BUILD_DATE=d\nPKG_NAME=x\n") != Err(ParseErr::Var("PKG_NAME".into())) {
        return Err("var error".into());
    }
    if parse("SIZE_PKG=12a\n") != Err(ParseErr::Int) || parse("FILE_SIZE=\n") != Err(ParseErr::Int) {
        return Err("int error".into());
    }
    if parse("BUILD_DATE=d\n") != Err(ParseErr::Missing(1)) || parse("") != Err(ParseErr::Missing(0)) {
        return Err("missing error".into());
    }
    if is_int("+5") != Some(5) || is_int("-0") != Some(0) || is_int("9223372036854775808").is_some() || is_int(" 5").is_some() {
        return Err("is_int".into());
    }
    let h = vec![
        Call::Set(3, Val::L(vec!["x".into()])),
        Call::Push(3, "y".into()),
        Call::Set(0, Val::S("a".into())),
        Call::Set(0, Val::S("b".into())),
        Call::Push(4, "z".into()),
    ];
    let a = apply(&h);
    if print(&a) != "BUILD_DATE=b\nCONFLICTS=x\nCONFLICTS=y\nDEPENDS=z\n" {
        return Err(format!("apply/print: {}", print(&a)));
    }
    Ok(())
}
