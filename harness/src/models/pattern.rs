//! Reference models of the pattern language: M-dewey-pattern (C02), M-brace (C04),
//! M-glob (C05) and the combined pipeline.  No code shared with /repo.

use super::dewey::{self, Letters, Op};

// ------------------------------------------------------------------ M-dewey-pattern

#[derive(Clone, Debug, PartialEq, Eq)]
pub struct DeweyPattern {
    pub base: String,
    pub bounds: Vec<(Op, String)>,
}

#[derive(Clone, Copy, Debug, PartialEq, Eq)]
pub enum DeweyCompileError {
    NoOperator,
    TooManyOperators,
    WrongOrder,
}

pub fn dewey_compile(p: &str) -> Result<DeweyPattern, DeweyCompileError> {
    let cs: Vec<char> = p.chars().collect();
    // (start of operator, start of bound text, op)
    let mut ops: Vec<(usize, usize, Op)> = vec![];
    let mut i = 0;
    while i < cs.len() {
        if cs[i] == '<' || cs[i] == '>' {
            let incl = i + 1 < cs.len() && cs[i + 1] == '=';
            let op = match (cs[i], incl) {
                ('<', false) => Op::Lt,
                ('<', true) => Op::Le,
                ('>', false) => Op::Gt,
                (_, true) => Op::Ge,
                _ => Op::Gt,
            };
            ops.push((i, if incl { i + 2 } else { i + 1 }, op));
        }
        i += 1;
    }
    match ops.len() {
        0 => return Err(DeweyCompileError::NoOperator),
        1 | 2 => {}
        _ => return Err(DeweyCompileError::TooManyOperators),
    }
    if ops.len() == 2 && !(ops[0].2.is_lower_bound() && !ops[1].2.is_lower_bound()) {
        return Err(DeweyCompileError::WrongOrder);
    }
    let base: String = cs[..ops[0].0].iter().collect();
    let mut bounds = vec![];
    for k in 0..ops.len() {
        let end = if k + 1 < ops.len() { ops[k + 1].0 } else { cs.len() };
        // an '=' directly after the operator of the *next* operator cannot be inside this bound
        let text: String = cs[ops[k].1.min(end)..end].iter().collect();
        bounds.push((ops[k].2, text));
    }
    Ok(DeweyPattern { base, bounds })
}

pub fn dewey_matches(p: &DeweyPattern, name: &str, letters: Letters) -> bool {
    let Some(pos) = name.rfind('-') else {
        return false;
    };
    let (nbase, nver) = (&name[..pos], &name[pos + 1..]);
    if nbase.as_bytes() != p.base.as_bytes() {
        return false;
    }
    p.bounds.iter().all(|(op, b)| dewey::verdict(nver, *op, b, letters))
}

// ------------------------------------------------------------------ M-brace

/// braces properly nested: depth never negative, ends at 0
pub fn balanced(p: &str) -> bool {
    let mut d = 0i64;
    for c in p.chars() {
        if c == '{' {
            d += 1;
        } else if c == '}' {
            d -= 1;
            if d < 0 {
                return false;
            }
        }
    }
    d == 0
}

/// number of groups ('{' characters)
pub fn groups(p: &str) -> usize {
    p.chars().filter(|c| *c == '{').count()
}

#[derive(Debug, Clone)]
enum Node {
    Text(String),
    Group(Vec<Vec<Node>>), // alternatives, each a sequence
}

fn parse_seq(cs: &[char], i: &mut usize, in_group: bool) -> Vec<Node> {
    let mut seq = vec![];
    let mut text = String::new();
    while *i < cs.len() {
        let c = cs[*i];
        if c == '{' {
            if !text.is_empty() {
                seq.push(Node::Text(std::mem::take(&mut text)));
            }
            *i += 1;
            let mut alts = vec![];
            loop {
                alts.push(parse_seq(cs, i, true));
                // parse_seq stops at ',' or '}' of this group
                if *i < cs.len() && cs[*i] == ',' {
                    *i += 1;
                    continue;
                }
                break;
            }
            // consume '}'
            if *i < cs.len() && cs[*i] == '}' {
                *i += 1;
            }
            seq.push(Node::Group(alts));
        } else if in_group && (c == ',' || c == '}') {
            break;
        } else {
            text.push(c);
            *i += 1;
        }
    }
    if !text.is_empty() {
        seq.push(Node::Text(text));
    }
    seq
}

fn count_seq(seq: &[Node]) -> u128 {
    let mut n: u128 = 1;
    for node in seq {
        let k = match node {
            Node::Text(_) => 1,
            Node::Group(alts) => alts.iter().map(|a| count_seq(a)).fold(0u128, |x, y| x.saturating_add(y)),
        };
        n = n.saturating_mul(k);
    }
    n
}

fn expand_seq(seq: &[Node]) -> Vec<String> {
    let mut acc = vec![String::new()];
    for node in seq {
        let parts: Vec<String> = match node {
            Node::Text(t) => vec![t.clone()],
            Node::Group(alts) => alts.iter().flat_map(|a| expand_seq(a)).collect(),
        };
        let mut next = Vec::with_capacity(acc.len() * parts.len());
        for a in &acc {
            for p in &parts {
                next.push(format!("{}{}", a, p));
            }
        }
        acc = next;
    }
    acc
}

/// number of strings in the csh expansion (requires `balanced(p)`)
pub fn count(p: &str) -> u128 {
    let cs: Vec<char> = p.chars().collect();
    let mut i = 0;
    count_seq(&parse_seq(&cs, &mut i, false))
}

/// csh-style expansion (requires `balanced(p)`): nested groups expanded, commas split only
/// at their own group's depth, empty alternatives kept, `{}` = one empty alternative
pub fn expand(p: &str) -> Vec<String> {
    let cs: Vec<char> = p.chars().collect();
    let mut i = 0;
    expand_seq(&parse_seq(&cs, &mut i, false))
}

// ------------------------------------------------------------------ M-glob

#[derive(Clone, Debug, PartialEq, Eq)]
pub enum GTok {
    Lit(char),
    Any,          // ?
    Star,         // *
    Set(bool, Vec<(char, char)>), // negated?, ranges (single char = (c,c))
}

/// what a glob text is to the shell-glob subset of C05
#[derive(Clone, Debug, PartialEq, Eq)]
pub enum GlobKind {
    WellFormed(Vec<GTok>),
    /// an unclosed or empty set, or a run of three or more '*' outside a set
    Malformed,
    /// a run of exactly two '*' outside a set: the statement excludes '**'
    OutsideSubset,
}

/// classify a glob text token by token (stars inside a bracket set are set members)
pub fn glob_classify(p: &str) -> GlobKind {
    let cs: Vec<char> = p.chars().collect();
    let mut i = 0;
    while i < cs.len() {
        match cs[i] {
            '*' => {
                let mut j = i;
                while j < cs.len() && cs[j] == '*' {
                    j += 1;
                }
                match j - i {
                    1 => {}
                    2 => return GlobKind::OutsideSubset,
                    _ => return GlobKind::Malformed,
                }
                i = j;
            }
            '[' => {
                let mut j = i + 1;
                if j < cs.len() && cs[j] == '!' {
                    j += 1;
                }
                let start = j;
                if j < cs.len() && cs[j] == ']' {
                    j += 1;
                }
                while j < cs.len() && cs[j] != ']' {
                    j += 1;
                }
                if j >= cs.len() || j == start {
                    return GlobKind::Malformed;
                }
                i = j + 1;
            }
            _ => i += 1,
        }
    }
    match glob_parse(p) {
        Some(t) => GlobKind::WellFormed(t),
        None => GlobKind::Malformed,
    }
}

/// parse the shell-glob subset; None = malformed
pub fn glob_parse(p: &str) -> Option<Vec<GTok>> {
    let cs: Vec<char> = p.chars().collect();
    let mut out = vec![];
    let mut i = 0;
    while i < cs.len() {
        match cs[i] {
            '*' => {
                // '**' and longer runs are outside the subset (and partly errors in the crate)
                if i + 1 < cs.len() && cs[i + 1] == '*' {
                    return None;
                }
                out.push(GTok::Star);
                i += 1;
            }
            '?' => {
                out.push(GTok::Any);
                i += 1;
            }
            '[' => {
                let mut j = i + 1;
                let neg = j < cs.len() && cs[j] == '!';
                if neg {
                    j += 1;
                }
                let start = j;
                // as in every shell, a ']' in first position is a member, not the end of the set
                if j < cs.len() && cs[j] == ']' {
                    j += 1;
                }
                while j < cs.len() && cs[j] != ']' {
                    j += 1;
                }
                if j >= cs.len() || j == start {
                    return None; // unclosed or empty set
                }
                let body = &cs[start..j];
                let mut ranges = vec![];
                let mut k = 0;
                while k < body.len() {
                    if k + 2 < body.len() && body[k + 1] == '-' {
                        ranges.push((body[k], body[k + 2]));
                        k += 3;
                    } else {
                        ranges.push((body[k], body[k]));
                        k += 1;
                    }
                }
                out.push(GTok::Set(neg, ranges));
                i = j + 1;
            }
            c => {
                out.push(GTok::Lit(c));
                i += 1;
            }
        }
    }
    Some(out)
}

fn tok_matches(t: &GTok, c: char) -> bool {
    match t {
        GTok::Lit(l) => *l == c,
        GTok::Any => true,
        GTok::Set(neg, rs) => rs.iter().any(|(lo, hi)| *lo <= c && c <= *hi) != *neg,
        GTok::Star => unreachable!(),
    }
}

/// whole-string, case-sensitive match (iterative, backtracking on the last '*')
pub fn glob_matches(toks: &[GTok], name: &str) -> bool {
    let s: Vec<char> = name.chars().collect();
    let (mut ti, mut si) = (0usize, 0usize);
    let mut star: Option<(usize, usize)> = None;
    while si < s.len() {
        if ti < toks.len() && toks[ti] == GTok::Star {
            star = Some((ti, si));
            ti += 1;
        } else if ti < toks.len() && tok_matches(&toks[ti], s[si]) {
            ti += 1;
            si += 1;
        } else if let Some((st, ss)) = star {
            ti = st + 1;
            si = ss + 1;
            star = Some((st, ss + 1));
        } else {
            return false;
        }
    }
    while ti < toks.len() && toks[ti] == GTok::Star {
        ti += 1;
    }
    ti == toks.len()
}

pub fn has_glob_meta(p: &str) -> bool {
    p.contains(['*', '?', '[', ']'])
}

// ------------------------------------------------------------------ pipeline

#[derive(Clone, Copy, Debug, PartialEq, Eq)]
pub enum Verdict {
    /// pattern does not compile
    Invalid,
    Match,
    NoMatch,
    /// outside the subset the models cover (e.g. '**'): no expectation
    Unknown,
}

/// brace-free pattern against a name
pub fn simple_verdict(p: &str, name: &str, letters: Letters) -> Verdict {
    if p.contains(['<', '>']) {
        match dewey_compile(p) {
            Err(_) => Verdict::Invalid,
            Ok(d) => {
                if dewey_matches(&d, name, letters) {
                    Verdict::Match
                } else {
                    Verdict::NoMatch
                }
            }
        }
    } else if has_glob_meta(p) {
        match glob_parse(p) {
            None => Verdict::Unknown,
            Some(t) => {
                if glob_matches(&t, name) {
                    Verdict::Match
                } else {
                    Verdict::NoMatch
                }
            }
        }
    } else if p == name {
        Verdict::Match
    } else {
        Verdict::NoMatch
    }
}

pub fn selfcheck() -> Result<(), String> {
    // dewey patterns
    let d = dewey_compile("pkg>=1.0<2").map_err(|e| format!("{:?}", e))?;
    if d.base != "pkg" || d.bounds != vec![(Op::Ge, "1.0".into()), (Op::Lt, "2".into())] {
        return Err(format!("compile {:?}", d));
    }
    for (p, e) in [
        ("pkg", DeweyCompileError::NoOperator),
        ("pkg<1>2", DeweyCompileError::WrongOrder),
        ("pkg>1>=2", DeweyCompileError::WrongOrder),
        ("pkg<1<2", DeweyCompileError::WrongOrder),
        ("pkg>1<2<3", DeweyCompileError::TooManyOperators),
        ("<>", DeweyCompileError::WrongOrder),
    ] {
        if dewey_compile(p) != Err(e) {
            return Err(format!("compile {} -> {:?}", p, dewey_compile(p)));
        }
    }
    let d = dewey_compile("a-b><=2").map_err(|e| format!("{:?}", e))?;
    if d.base != "a-b" || d.bounds != vec![(Op::Gt, "".into()), (Op::Le, "2".into())] {
        return Err(format!("compile adjacent {:?}", d));
    }
    let d = dewey_compile("pkg>=1.0<2").unwrap();
    for (n, exp) in [("pkg-1.0", true), ("pkg-1.0rc1", false), ("pkg-2.0rc1", true), ("pkg-2.0", false),
                     ("pkg", false), ("pkgx-1.5", false), ("pk-1.5", false), ("a-pkg-1.5", false)] {
        if dewey_matches(&d, n, Letters::Rank) != exp {
            return Err(format!("matches {} should be {}", n, exp));
        }
    }
    // braces
    for (p, exp) in [("{a,b}", true), ("}{", false), ("{{a}", false), ("a{b{c,d}e}f", true), ("{a}}", false)] {
        if balanced(p) != exp {
            return Err(format!("balanced {}", p));
        }
    }
    let mut e = expand("a-{b,c}-{d{e,f},g}-h");
    e.sort();
    let mut w = vec!["a-b-de-h", "a-b-df-h", "a-b-g-h", "a-c-de-h", "a-c-df-h", "a-c-g-h"];
    w.sort();
    if e != w {
        return Err(format!("expand {:?}", e));
    }
    if expand("{a{b,c},d}-1") != vec!["ab-1", "ac-1", "d-1"] {
        return Err(format!("expand nested {:?}", expand("{a{b,c},d}-1")));
    }
    if expand("x{}y{,z}") != vec!["xy", "xyz"] {
        return Err(format!("expand empty {:?}", expand("x{}y{,z}")));
    }
    if expand("{a}") != vec!["a"] || expand("a,b") != vec!["a,b"] {
        return Err("expand single / top-level comma".into());
    }
    if count("a-{b,c}-{d{e,f},g}-h") != 6 || count("{}{}{}") != 1 || count("{a,b}{c,d}{e,f}") != 8 {
        return Err("count".into());
    }
    // globs
    let g = |p: &str, n: &str| glob_parse(p).map(|t| glob_matches(&t, n));
    for (p, n, exp) in [
        ("foo-[0-9]*", "foo-1.0", Some(true)),
        ("foo-[0-9]*", "foo-", Some(false)),
        ("fo?-[0-9]*", "foo-1.0", Some(true)),
        ("*oo-[0-9]*", "foo-1.0", Some(true)),
        ("foo-[2-9]*", "foo-1.0", Some(false)),
        ("foo-[!0-9]*", "foo-a", Some(true)),
        ("foo-[!0-9]*", "foo-1", Some(false)),
        ("*", "", Some(true)),
        ("?", "", Some(false)),
        ("a*b*c", "abxbc", Some(true)),
        ("a*b*c", "abxb", Some(false)),
        ("a]", "a]", Some(true)),
        ("foo-[0-9", "foo-1", None),
        ("a**", "a", None),
        ("[]", "a", None),
        ("é?", "éa", Some(true)),
    ] {
        if g(p, n) != exp {
            return Err(format!("glob {} vs {} -> {:?}", p, n, g(p, n)));
        }
    }
    Ok(())
}
