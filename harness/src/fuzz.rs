//! Entry points of the libFuzzer targets.  Each decodes the fuzzer's bytes into the structured
//! case of a property module and runs that property's oracle, so the same code runs under
//! proptest, under libFuzzer and in replay.

use crate::engine::{Obs, B};
use crate::models::dewey::cap_digit_runs;
use crate::models::summary as ms;
use crate::props::{c01, c02, c03, c04, c05, c06, c08, c09, c11, c13, c14, c16, c18, c19};
use crate::targets;

/// (fuzz target, property it serves)
pub const FUZZ_TARGETS: [(&str, &str); 17] = [
    ("hash_schedules", "C13"),
    ("scan_lines", "C16"),
    ("dewey_patterns", "C02"),
    ("globs", "C05"),
    ("best_match", "C06"),
    ("summary_texts", "C08"),
    ("distinfo_lines", "C11"),
    ("pkgnames", "C18"),
    ("paths", "C19"),
    ("versions", "C01"),
    ("version_laws", "C03"),
    ("braces", "C04"),
    ("stream_chunks", "C09"),
    ("plist_lines", "C14"),
    ("c17_pattern", "C17"),
    ("c17_docs", "C17"),
    ("c17_summary_ops", "C17"),
];

fn clean_version(raw: &[u8]) -> String {
    let s: String = String::from_utf8_lossy(raw).chars().filter(|c| !['-', '<', '>', '{', '}', '\n'].contains(c)).collect();
    s.trim_start_matches('=').to_string()
}

/// run the oracle of `target` on `data`; Err = the property is violated on this input.
/// Panics of the code under test propagate (libFuzzer reports them; replay catches them).
pub fn run_checked(target: &str, data: &[u8]) -> Result<(), String> {
    let mut obs = Obs::default();
    match target {
        "versions" => {
            // two versions separated by LF; C01: model differential inside its domain
            let mut parts = data.split(|b| *b == b'\n').map(clean_version);
            let a = cap_digit_runs(&parts.next().unwrap_or_default(), 18);
            let b = cap_digit_runs(&parts.next().unwrap_or_default(), 18);
            c01::check_pair(&c01::PairCase { a, b }, &mut obs)
        }
        "version_laws" => {
            // up to three versions separated by LF; C03: laws on arbitrary text (any digit-run length)
            let mut parts = data.split(|b| *b == b'\n').map(clean_version);
            let a = parts.next().unwrap_or_default();
            let b = parts.next().unwrap_or_default();
            let c = parts.next().unwrap_or_default();
            c03::check(&c03::Triple { a, b, c }, &mut obs)
        }
        "braces" => {
            // bytes mapped onto a 16-symbol alphabet; 0xFF separates pattern from name
            const SYM: [&str; 16] = ["{", "}", ",", "a", "b", "c", "-", "1", "2", ".", "*", "?", "[0-9]", ">=", "<", ">"];
            const NAME: [&str; 12] = ["a", "b", "c", "-", "1", "2", ".", "0", "x", "d", "10", "nb1"];
            let cut = data.iter().position(|b| *b == 0xff).unwrap_or(data.len());
            let pattern: String = data[..cut].iter().take(64).map(|b| SYM[(*b as usize) % 16]).collect();
            let name: String = data[(cut + 1).min(data.len())..].iter().take(16).map(|b| NAME[(*b as usize) % 12]).collect();
            c04::check(&c04::Case { pattern, name, kind: "other".into() }, &mut obs)
        }
        "stream_chunks" => {
            // structure-aware: values are picked from a pool, the remaining bytes are cut offsets
            const POOL: [&str; 12] = ["", "a", "é", "x=é", "💖", "日本", "=", "ß", "1.0", "€", "\u{7ff}\u{800}", "pkg-1.0"];
            let mut it = data.iter().copied();
            let n_entries = 1 + (it.next().unwrap_or(0) % 3) as usize;
            let mut entries = vec![];
            for _ in 0..n_entries {
                let mut a = ms::Assignment::new();
                for (i, (_, kind, req)) in ms::VARS.iter().enumerate() {
                    let sel = it.next().unwrap_or(1);
                    if !req && sel % 3 != 0 {
                        continue;
                    }
                    let v = POOL[(sel as usize / 3) % POOL.len()].to_string();
                    a.insert(
                        i,
                        match kind {
                            ms::Kind::Scalar => ms::Val::S(v),
                            ms::Kind::Int => ms::Val::I(sel as i64 - 100),
                            ms::Kind::List => ms::Val::L(if sel % 2 == 0 { vec![v] } else { vec![v.clone(), v] }),
                        },
                    );
                }
                entries.push(B(ms::print(&a).into_bytes()));
            }
            let total: usize = entries.iter().map(|e| e.0.len() + 1).sum();
            let rest: Vec<u8> = it.collect();
            let mut cuts: Vec<usize> = rest.chunks(2).take(12).map(|c| ((c[0] as usize) << 8 | *c.get(1).unwrap_or(&0) as usize) % (total + 1)).collect();
            cuts.sort();
            c09::check(&c09::Case { entries, bad: None, rand: 0, cuts: Some(cuts) }, &mut obs)
        }
        "plist_lines" => {
            let final_newline = data.last() == Some(&b'\n');
            let body = if final_newline { &data[..data.len() - 1] } else { data };
            let lines: Vec<B> = body.split(|b| *b == b'\n').take(40).map(|l| B(l.to_vec())).collect();
            c14::check_doc(&c14::DocCase { lines, final_newline }, &mut obs)
        }
        "dewey_patterns" => {
            // pattern LF name; C02 with the free-form oracle (compile agreement, KF-1 leniency)
            let mut parts = data.splitn(2, |b| *b == b'\n').map(|p| String::from_utf8_lossy(p).into_owned());
            let pattern = cap_digit_runs(&parts.next().unwrap_or_default(), 18);
            let name = cap_digit_runs(&parts.next().unwrap_or_default(), 18);
            c02::check_free(&c02::Case { pattern, name }, &mut obs)
        }
        "globs" => {
            let mut parts = data.splitn(2, |b| *b == b'\n').map(|p| String::from_utf8_lossy(p).into_owned());
            let pattern = parts.next().unwrap_or_default();
            let name = parts.next().unwrap_or_default();
            c05::check(&c05::Case { pattern, name }, &mut obs)
        }
        "best_match" => {
            let mut parts = data.splitn(4, |b| *b == b'\n').map(|p| String::from_utf8_lossy(p).into_owned());
            let pattern = parts.next().unwrap_or_default();
            let a = parts.next().unwrap_or_default();
            let b = parts.next().unwrap_or_default();
            let c = parts.next().unwrap_or_default();
            c06::check_any(&c06::AnyCase { pattern, a, b, c }, &mut obs)
        }
        "summary_texts" => {
            let final_newline = data.last() == Some(&b'\n');
            let body = if final_newline { &data[..data.len() - 1] } else { data };
            let text = String::from_utf8_lossy(body).into_owned();
            let lines: Vec<String> = if text.is_empty() { vec![] } else { text.split('\n').map(String::from).collect() };
            c08::check(&c08::Case { lines, faults: 0, final_newline }, &mut obs)
        }
        "distinfo_lines" => {
            let final_newline = data.last() == Some(&b'\n');
            let body = if final_newline { &data[..data.len() - 1] } else { data };
            let lines: Vec<B> = body.split(|b| *b == b'\n').take(60).map(|l| B(l.to_vec())).collect();
            c11::check(&c11::Case { lines, final_newline }, &mut obs)
        }
        "hash_schedules" => {
            // [n][n x (kind, size)][tail][bytes...]: a read schedule in front of the data
            let mut it = data.iter().copied();
            let n = (it.next().unwrap_or(0) % 16) as usize;
            let mut schedule = vec![];
            let mut errors = 0;
            for _ in 0..n {
                let (k, v) = (it.next().unwrap_or(0), it.next().unwrap_or(1));
                schedule.push(match k % 8 {
                    6 => c13::Step::Interrupted,
                    7 if errors == 0 => {
                        errors += 1;
                        c13::Step::Error(v)
                    }
                    0 => c13::Step::Chunk(1),
                    1 => c13::Step::Chunk(v as u32 * 40 + 1),
                    _ => c13::Step::Chunk(v as u32 + 1),
                });
            }
            let tail_chunk = match it.next().unwrap_or(0) % 4 {
                0 => 1,
                1 => 7,
                2 => 64,
                _ => 8192,
            };
            let rest: Vec<u8> = it.collect();
            c13::check(&c13::Case { data: B(rest), schedule, tail_chunk }, &mut obs)
        }
        "scan_lines" => {
            // [k][k chunk sizes][fault selector][text...]
            let mut it = data.iter().copied();
            let k = (it.next().unwrap_or(0) % 13) as usize;
            let chunks: Vec<u16> = (0..k).map(|_| it.next().unwrap_or(1) as u16).collect();
            let sel = it.next().unwrap_or(1);
            let fail_at = if sel % 4 == 0 { Some((sel / 4) as u16 % 40) } else { None };
            let rest: Vec<u8> = it.collect();
            let final_newline = rest.last() == Some(&b'\n');
            let body = if final_newline { &rest[..rest.len() - 1] } else { &rest[..] };
            let text = String::from_utf8_lossy(body).into_owned();
            let lines: Vec<String> = if text.is_empty() { vec![] } else { text.split('\n').map(String::from).collect() };
            c16::check(&c16::Case { lines, final_newline, chunks, fail_at, all_reads: false }, &mut obs)
        }
        "pkgnames" => c18::check(&c18::Case { name: String::from_utf8_lossy(data).into_owned() }, &mut obs),
        "paths" => match data.split_first() {
            Some((sel, rest)) if sel % 2 == 0 => c19::check_path(&c19::PathCase { path: String::from_utf8_lossy(rest).into_owned() }, &mut obs),
            Some((_, rest)) => c19::check_dep(&c19::DepCase { text: String::from_utf8_lossy(rest).into_owned() }, &mut obs),
            None => Ok(()),
        },
        "c17_pattern" => {
            targets::run("pattern", data);
            Ok(())
        }
        "c17_docs" => {
            // first byte selects the entry point family
            const T: [&str; 9] = ["names", "summary", "stream", "plist", "distinfo", "scanindex", "digest", "metadata", "pkgdb"];
            if let Some((sel, rest)) = data.split_first() {
                // the package-database target touches the file system: keep it rare under the fuzzer
                let t = T[(*sel as usize) % if *sel >= 250 { 9 } else { 8 }];
                targets::run(t, rest);
            }
            Ok(())
        }
        "c17_summary_ops" => {
            targets::run("summary_ops", data);
            Ok(())
        }
        _ => Err(format!("unknown fuzz target {}", target)),
    }
}

/// libFuzzer entry: an oracle failure becomes a panic (= a crash artifact)
pub fn entry(target: &str, data: &[u8]) {
    if let Err(e) = run_checked(target, data) {
        panic!("property violated in fuzz target {}: {}", target, e);
    }
}

// ------------------------------------------------------------------ replay + campaigns

use crate::engine::fuzzrun::Campaign;
use crate::engine::{random_stream, AnyStream, Tier};
use proptest::prelude::*;
use proptest::strategy::{Strategy, ValueTree};
use proptest::test_runner::{Config, RngAlgorithm, TestRng, TestRunner};
use serde::{Deserialize, Serialize};

#[derive(Clone, Debug, Serialize, Deserialize)]
pub struct FuzzCase {
    pub target: String,
    pub data: B,
}

fn check_case(c: &FuzzCase, _obs: &mut Obs) -> Result<(), String> {
    run_checked(&c.target, &c.data.0)
}

/// replay-only stream: libFuzzer artifacts are stored as {target, data} and re-run through the
/// same oracle without libFuzzer
pub fn replay_stream() -> Box<dyn AnyStream> {
    random_stream(
        "fuzz",
        "replay-only: inputs found by the libFuzzer campaigns",
        |_| any::<u8>().prop_map(|b| FuzzCase { target: String::new(), data: B(vec![b]) }).boxed(),
        |_| 0,
        check_case,
    )
}

/// deterministic samples of a strategy (seed corpus for the campaigns)
pub fn samples<T: std::fmt::Debug>(s: BoxedStrategy<T>, n: usize) -> Vec<T> {
    let mut runner = TestRunner::new_with_rng(Config::default(), TestRng::from_seed(RngAlgorithm::ChaCha, &[7u8; 32]));
    (0..n).filter_map(|_| s.new_tree(&mut runner).ok().map(|t| t.current())).collect()
}

fn seeds_versions() -> Vec<Vec<u8>> {
    samples(crate::props::vergen::pair(10), 150).into_iter().map(|(a, b)| format!("{}\n{}\n{}", a, b, a).into_bytes()).collect()
}
fn seeds_random() -> Vec<Vec<u8>> {
    samples(prop::collection::vec(any::<u8>(), 8..200).boxed(), 100)
}
fn seeds_plist() -> Vec<Vec<u8>> {
    let mut v: Vec<Vec<u8>> = samples(prop::collection::vec(c14::command_line(), 0..12).boxed(), 120).into_iter().map(|l| l.join(&b"\n"[..])).collect();
    v.push(crate::props::c17::SEED_PLIST.as_bytes().to_vec());
    v
}
fn seeds_c17(targets: &'static [&'static str], with_selector: bool) -> Vec<Vec<u8>> {
    let mut out = vec![];
    for (k, t) in targets.iter().enumerate() {
        for c in samples(crate::props::c17::cases_for(t), 60) {
            let mut d = c.data.0;
            if with_selector {
                d.insert(0, k as u8);
            }
            out.push(d);
        }
    }
    out
}
fn seeds_c17_pattern() -> Vec<Vec<u8>> {
    seeds_c17(&["pattern"], false)
}
fn seeds_c17_docs() -> Vec<Vec<u8>> {
    seeds_c17(&["names", "summary", "stream", "plist", "distinfo", "scanindex", "digest", "metadata"], true)
}
fn seeds_c17_ops() -> Vec<Vec<u8>> {
    seeds_c17(&["summary_ops"], false)
}

fn seeds_c02() -> Vec<Vec<u8>> {
    samples(c02::free_strategy(Tier::Quick), 200).into_iter().map(|c| format!("{}\n{}", c.pattern, c.name).into_bytes()).collect()
}
fn seeds_c05() -> Vec<Vec<u8>> {
    samples(c05::case_strategy(Tier::Quick), 200).into_iter().map(|c| format!("{}\n{}", c.pattern, c.name).into_bytes()).collect()
}
fn seeds_c06() -> Vec<Vec<u8>> {
    samples(c06::any_strategy(Tier::Quick), 200).into_iter().map(|c| format!("{}\n{}\n{}\n{}", c.pattern, c.a, c.b, c.c).into_bytes()).collect()
}
fn seeds_c08() -> Vec<Vec<u8>> {
    samples(c08::case_strategy(Tier::Quick), 150)
        .into_iter()
        .map(|c| {
            let mut t = c.lines.join("\n");
            if c.final_newline {
                t.push('\n');
            }
            t.into_bytes()
        })
        .collect()
}
fn seeds_c11() -> Vec<Vec<u8>> {
    samples(c11::case_strategy(Tier::Quick), 150)
        .into_iter()
        .map(|c| {
            let mut t = c.lines.iter().map(|l| l.0.clone()).collect::<Vec<_>>().join(&b"\n"[..]);
            if c.final_newline {
                t.push(b'\n');
            }
            t
        })
        .collect()
}
fn seeds_c13() -> Vec<Vec<u8>> {
    let mut v = vec![];
    for c in samples(c13::case_strategy(Tier::Quick), 60).into_iter().chain(samples(c13::fault_strategy(Tier::Quick), 40)) {
        if c.data.0.len() > 900 {
            continue;
        }
        let mut d = vec![c.schedule.len().min(15) as u8];
        for s in c.schedule.iter().take(15) {
            match s {
                c13::Step::Chunk(n) => d.extend([2u8, (*n).min(255) as u8]),
                c13::Step::Interrupted => d.extend([6u8, 0]),
                c13::Step::Error(k) => d.extend([7u8, *k]),
            }
        }
        d.push(2);
        d.extend_from_slice(&c.data.0);
        v.push(d);
    }
    v
}
fn seeds_c16() -> Vec<Vec<u8>> {
    samples(c16::clean_strategy(Tier::Quick), 80)
        .into_iter()
        .chain(samples(c16::fault_strategy(Tier::Quick), 60))
        .filter(|c| c.lines.len() < 60)
        .map(|c| {
            let mut d = vec![c.chunks.len().min(12) as u8];
            d.extend(c.chunks.iter().take(12).map(|n| (*n).min(255) as u8));
            d.push(1);
            let mut t = c.lines.join("\n");
            if c.final_newline {
                t.push('\n');
            }
            d.extend_from_slice(t.as_bytes());
            d
        })
        .collect()
}
fn seeds_c18() -> Vec<Vec<u8>> {
    samples(c18::case_strategy(Tier::Quick), 200).into_iter().map(|c| c.name.into_bytes()).collect()
}
fn seeds_c19() -> Vec<Vec<u8>> {
    let mut v: Vec<Vec<u8>> = samples(c19::random_paths(Tier::Quick), 100).into_iter().map(|c| [vec![0u8], c.path.into_bytes()].concat()).collect();
    v.extend(samples(c19::dep_random(Tier::Quick), 150).into_iter().map(|c| [vec![1u8], c.text.into_bytes()].concat()));
    v
}

/// the campaigns that serve a property (thorough tier)
pub fn campaigns(property: &str) -> Vec<Campaign> {
    let c = |target, runs, max_len, dict, seeds| Campaign { target, runs, workers: 8, max_len, dict, seeds };
    match property {
        "C01" => vec![c("versions", 250_000, 96, "versions.dict", seeds_versions)],
        "C02" => vec![c("dewey_patterns", 1_000_000, 128, "patterns.dict", seeds_c02)],
        "C03" => vec![c("version_laws", 100_000, 160, "versions.dict", seeds_versions)],
        "C05" => vec![c("globs", 1_000_000, 96, "patterns.dict", seeds_c05)],
        "C06" => vec![c("best_match", 150_000, 128, "patterns.dict", seeds_c06)],
        "C08" => vec![c("summary_texts", 800_000, 1024, "docs.dict", seeds_c08)],
        "C11" => vec![c("distinfo_lines", 800_000, 1024, "docs.dict", seeds_c11)],
        "C18" => vec![c("pkgnames", 500_000, 96, "versions.dict", seeds_c18)],
        "C19" => vec![c("paths", 1_000_000, 96, "patterns.dict", seeds_c19)],
        "C04" => vec![c("braces", 400_000, 96, "", seeds_random)],
        "C09" => vec![c("stream_chunks", 150_000, 160, "", seeds_random)],
        "C13" => vec![c("hash_schedules", 60_000, 1024, "docs.dict", seeds_c13)],
        "C16" => vec![c("scan_lines", 300_000, 1024, "docs.dict", seeds_c16)],
        "C14" => vec![c("plist_lines", 600_000, 256, "docs.dict", seeds_plist)],
        "C17" => vec![
            c("c17_pattern", 400_000, 512, "patterns.dict", seeds_c17_pattern),
            c("c17_docs", 400_000, 2048, "docs.dict", seeds_c17_docs),
            c("c17_summary_ops", 400_000, 512, "docs.dict", seeds_c17_ops),
        ],
        _ => vec![],
    }
}

/// `extra` hook of the properties with a fuzz complement
pub fn extra(ctx: &crate::engine::RunCtx) -> Result<serde_json::Value, crate::engine::Failure> {
    if ctx.tier != Tier::Thorough {
        return Ok(serde_json::json!({"fuzz_campaigns": "thorough tier only"}));
    }
    crate::engine::fuzzrun::run_campaigns(ctx, &campaigns(ctx.property))
}
