//! `B`: a byte string that serialises to a readable, reversible escaped string
//! (printable ASCII verbatim, everything else as `\xNN`, backslash as `\\`).

use serde::{Deserialize, Deserializer, Serialize, Serializer};
use std::fmt;

#[derive(Clone, PartialEq, Eq, Hash, PartialOrd, Ord, Default)]
pub struct B(pub Vec<u8>);

pub fn escape(bytes: &[u8]) -> String {
    let mut s = String::with_capacity(bytes.len());
    for &b in bytes {
        match b {
            b'\\' => s.push_str("\\\\"),
            0x20..=0x7e => s.push(b as char),
            _ => s.push_str(&format!("\\x{:02x}", b)),
        }
    }
    s
}

pub fn unescape(s: &str) -> Result<Vec<u8>, String> {
    let b = s.as_bytes();
    let mut out = Vec::with_capacity(b.len());
    let mut i = 0;
    while i < b.len() {
        if b[i] == b'\\' {
            if i + 1 < b.len() && b[i + 1] == b'\\' {
                out.push(b'\\');
                i += 2;
            } else if i + 3 < b.len() && b[i + 1] == b'x' {
                let h = std::str::from_utf8(&b[i + 2..i + 4])
                    .map_err(|e| e.to_string())?;
                out.push(u8::from_str_radix(h, 16).map_err(|e| e.to_string())?);
                i += 4;
            } else {
                return Err(format!("bad escape at {}", i));
            }
        } else {
            out.push(b[i]);
            i += 1;
        }
    }
    Ok(out)
}

impl fmt::Debug for B {
    fn fmt(&self, f: &mut fmt::Formatter) -> fmt::Result {
        write!(f, "b\"{}\"", escape(&self.0))
    }
}

impl Serialize for B {
    fn serialize<S: Serializer>(&self, s: S) -> Result<S::Ok, S::Error> {
        s.serialize_str(&escape(&self.0))
    }
}

impl<'de> Deserialize<'de> for B {
    fn deserialize<D: Deserializer<'de>>(d: D) -> Result<B, D::Error> {
        let s = String::deserialize(d)?;
        unescape(&s).map(B).map_err(serde::de::Error::custom)
    }
}

impl From<Vec<u8>> for B {
    fn from(v: Vec<u8>) -> B {
        B(v)
    }
}
impl From<&[u8]> for B {
    fn from(v: &[u8]) -> B {
        B(v.to_vec())
    }
}
impl From<&str> for B {
    fn from(v: &str) -> B {
        B(v.as_bytes().to_vec())
    }
}
impl std::ops::Deref for B {
    type Target = [u8];
    fn deref(&self) -> &[u8] {
        &self.0
    }
}

#[cfg(test)]
mod tests {
    use super::*;
    #[test]
    fn roundtrip() {
        let all: Vec<u8> = (0..=255u8).collect();
        assert_eq!(unescape(&escape(&all)).unwrap(), all);
        assert_eq!(unescape("a\\\\x41").unwrap(), b"a\\x41");
    }
}
