//! Thorough-tier libFuzzer campaigns (cargo-fuzz build, direct execution of the target binaries,
//! fixed number of runs, fresh corpus seeded from the harness's own generators).

use super::{guard, verif_dir, Failure, RunCtx, B};
use serde_json::{json, Value};
use std::path::{Path, PathBuf};
use std::process::{Command, Stdio};

pub struct Campaign {
    pub target: &'static str,
    /// runs per worker process
    pub runs: u64,
    pub workers: u32,
    pub max_len: u32,
    pub dict: &'static str,
    /// seed inputs written to the fresh corpus
    pub seeds: fn() -> Vec<Vec<u8>>,
}

fn fuzz_dir() -> PathBuf {
    verif_dir().join("harness").join("fuzz")
}

fn inconclusive(msg: &str) -> ! {
    println!("INCONCLUSIVE: {}", msg);
    std::process::exit(2);
}

fn build(target: &str) -> PathBuf {
    let out = Command::new("cargo")
        .args(["+nightly", "fuzz", "build", "-s", "none", target])
        .current_dir(fuzz_dir())
        .env("CARGO_NET_OFFLINE", "true")
        .stdout(Stdio::piped())
        .stderr(Stdio::piped())
        .output();
    match out {
        Ok(o) if o.status.success() => {}
        Ok(o) => inconclusive(&format!(
            "cargo fuzz build {} failed:\n{}",
            target,
            String::from_utf8_lossy(&o.stderr).lines().rev().take(30).collect::<Vec<_>>().into_iter().rev().collect::<Vec<_>>().join("\n")
        )),
        Err(e) => inconclusive(&format!("cannot run cargo fuzz: {}", e)),
    }
    let bin = fuzz_dir().join("target").join("x86_64-unknown-linux-gnu").join("release").join(target);
    if !bin.exists() {
        inconclusive(&format!("fuzz binary {} not found after build", bin.display()));
    }
    bin
}

fn stat(text: &str, key: &str) -> Option<u64> {
    text.lines().rev().find_map(|l| l.strip_prefix(key).and_then(|r| r.trim().trim_start_matches(':').trim().parse().ok()))
}

/// Run the campaigns; Ok(statistics) or the first confirmed failure.
pub fn run_campaigns(ctx: &RunCtx, campaigns: &[Campaign]) -> Result<Value, Failure> {
    let mut stats = vec![];
    for c in campaigns {
        let bin = build(c.target);
        let work = fuzz_dir().join("work").join(format!("{}-{}", c.target, std::process::id()));
        let _ = std::fs::remove_dir_all(&work);
        let seeds = (c.seeds)();
        let mut children = vec![];
        for w in 0..c.workers {
            let corpus = work.join(format!("corpus{}", w));
            let arts = work.join(format!("artifacts{}", w));
            std::fs::create_dir_all(&corpus).unwrap_or_else(|e| inconclusive(&format!("mkdir: {}", e)));
            std::fs::create_dir_all(&arts).unwrap_or_else(|e| inconclusive(&format!("mkdir: {}", e)));
            for (i, s) in seeds.iter().enumerate() {
                let _ = std::fs::write(corpus.join(format!("seed{:04}", i)), s);
            }
            let seed = (ctx.seed.wrapping_mul(1_000_003).wrapping_add(w as u64 + 1)) & 0x7fff_ffff;
            let mut cmd = Command::new(&bin);
            cmd.arg(&corpus)
                .arg(format!("-runs={}", c.runs))
                .arg(format!("-seed={}", seed.max(1)))
                .arg(format!("-max_len={}", c.max_len))
                .arg("-timeout=10")
                .arg("-len_control=0")
                .arg("-print_final_stats=1")
                .arg(format!("-artifact_prefix={}/", arts.display()))
                .stdout(Stdio::null());
            // libFuzzer is chatty on stderr: a pipe would fill up while another worker is being
            // waited for, so each worker logs to its own file
            let log = work.join(format!("worker{}.log", w));
            match std::fs::File::create(&log) {
                Ok(f) => {
                    cmd.stderr(Stdio::from(f));
                }
                Err(e) => inconclusive(&format!("create {}: {}", log.display(), e)),
            }
            if !c.dict.is_empty() {
                // the hand-written dictionary plus the literals of the library's own source
                let merged = work.join("dict.txt");
                if w == 0 {
                    let mut text = std::fs::read_to_string(fuzz_dir().join("dict").join(c.dict)).unwrap_or_default();
                    text.push('\n');
                    for t in crate::engine::dict::TOKENS {
                        if t.is_empty() || t.len() > 24 {
                            continue;
                        }
                        text.push('"');
                        for b in t.iter() {
                            match b {
                                b'"' => text.push_str("\\\""),
                                b'\\' => text.push_str("\\\\"),
                                0x20..=0x7e => text.push(*b as char),
                                _ => text.push_str(&format!("\\x{:02x}", b)),
                            }
                        }
                        text.push_str("\"\n");
                    }
                    std::fs::write(&merged, text).unwrap_or_else(|e| inconclusive(&format!("write dict: {}", e)));
                }
                cmd.arg(format!("-dict={}", merged.display()));
            }
            children.push((w, arts, log, cmd.spawn().unwrap_or_else(|e| inconclusive(&format!("spawn fuzz target: {}", e)))));
        }
        let mut executed = 0u64;
        let mut cov = 0u64;
        let mut corpus_units = 0u64;
        let mut failure: Option<Failure> = None;
        for (w, arts, log, mut child) in children {
            let status = child.wait().unwrap_or_else(|e| inconclusive(&format!("wait: {}", e)));
            let err = String::from_utf8_lossy(&std::fs::read(&log).unwrap_or_default()).into_owned();
            executed += stat(&err, "stat::number_of_executed_units").unwrap_or(0);
            if let Some(l) = err.lines().rev().find(|l| l.contains("cov: ")) {
                let grab = |k: &str| l.split(k).nth(1).and_then(|r| r.trim().split(|c: char| !c.is_ascii_digit()).next().and_then(|n| n.parse::<u64>().ok()));
                cov = cov.max(grab("cov: ").unwrap_or(0));
                corpus_units = corpus_units.max(grab("corp: ").unwrap_or(0));
            }
            if !status.success() && failure.is_none() {
                // a crash / timeout artifact: confirm through the stable replay path
                let art = std::fs::read_dir(&arts).ok().and_then(|rd| rd.filter_map(|e| e.ok()).map(|e| e.path()).next());
                let Some(art) = art else {
                    inconclusive(&format!("fuzz worker {} of {} failed without an artifact:\n{}", w, c.target, err.lines().rev().take(15).collect::<Vec<_>>().join("\n")));
                };
                let data = std::fs::read(&art).unwrap_or_default();
                let target = c.target;
                let d2 = data.clone();
                let verdict = confirm(target, d2);
                match verdict {
                    Some(reason) => {
                        failure = Some(Failure {
                            stream: "fuzz".to_string(),
                            reason,
                            case: json!({"target": target, "data": B(data)}),
                            history: vec![],
                        })
                    }
                    None => inconclusive(&format!(
                        "libFuzzer artifact {} of target {} does not reproduce through the stable replay path",
                        art.display(),
                        c.target
                    )),
                }
            }
        }
        let _ = std::fs::remove_dir_all(&work);
        stats.push(json!({
            "target": c.target,
            "engine": "libFuzzer (cargo-fuzz, -s none, debug assertions and overflow checks on)",
            "workers": c.workers,
            "runs_per_worker": c.runs,
            "executed_units": executed,
            "max_len": c.max_len,
            "seed_inputs": seeds.len(),
            "coverage_counters(cov)": cov,
            "largest_worker_corpus": corpus_units,
            "failed": failure.is_some(),
        }));
        if let Some(f) = failure {
            return Err(f);
        }
    }
    Ok(json!({ "fuzz_campaigns": stats }))
}

/// Some(reason) when the input violates the property (or panics / hangs) on the stable path
fn confirm(target: &'static str, data: Vec<u8>) -> Option<String> {
    let (tx, rx) = std::sync::mpsc::channel();
    std::thread::Builder::new()
        .stack_size(super::SHARD_STACK)
        .spawn(move || {
            super::install_panic_hook();
            let r = guard(|| crate::fuzz::run_checked(target, &data));
            let _ = tx.send(r);
        })
        .ok()?;
    match rx.recv_timeout(std::time::Duration::from_secs(60)) {
        Ok(Ok(Ok(()))) => None,
        Ok(Ok(Err(e))) => Some(e),
        Ok(Err(panic)) => Some(panic),
        Err(_) => Some("no result within 60 s (hang)".to_string()),
    }
}

pub fn exists() -> bool {
    Path::new(&fuzz_dir()).exists()
}
