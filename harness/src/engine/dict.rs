//! Source-literal dictionary (built by build.rs from the library's own source): tokens and
//! integers that the code under test mentions.  Generators mix them in at low weight, each site
//! filtering by the character class of its own domain, so a value the code treats specially is
//! within reach of generated input without the harness naming it.

use proptest::prelude::*;

include!(concat!(env!("OUT_DIR"), "/dict_data.rs"));

/// tokens that are valid UTF-8 and whose characters all satisfy `ok`
pub fn strings(ok: fn(char) -> bool) -> Vec<String> {
    TOKENS
        .iter()
        .filter_map(|t| std::str::from_utf8(t).ok())
        .filter(|s| !s.is_empty() && s.chars().all(ok))
        .map(|s| s.to_string())
        .collect()
}

/// tokens whose bytes all satisfy `ok`
pub fn bytes(ok: fn(u8) -> bool) -> Vec<Vec<u8>> {
    TOKENS.iter().filter(|t| !t.is_empty() && t.iter().all(|b| ok(*b))).map(|t| t.to_vec()).collect()
}

/// a strategy over the filtered string tokens; `fallback` keeps it non-empty
pub fn string_token(ok: fn(char) -> bool, fallback: &'static str) -> BoxedStrategy<String> {
    let mut v = strings(ok);
    if v.is_empty() {
        v.push(fallback.to_string());
    }
    prop::sample::select(v).boxed()
}

pub fn byte_token(ok: fn(u8) -> bool, fallback: &'static [u8]) -> BoxedStrategy<Vec<u8>> {
    let mut v = bytes(ok);
    if v.is_empty() {
        v.push(fallback.to_vec());
    }
    prop::sample::select(v).boxed()
}

/// integers of the source (and their neighbours) within `lo..=hi`
pub fn ints_in(lo: u64, hi: u64) -> Vec<u64> {
    let mut v: Vec<u64> = INTS
        .iter()
        .flat_map(|n| [n.saturating_sub(1), *n, n.saturating_add(1)])
        .filter(|n| *n >= lo && *n <= hi)
        .collect();
    v.sort();
    v.dedup();
    v
}

pub fn int_token(lo: u64, hi: u64) -> BoxedStrategy<u64> {
    let mut v = ints_in(lo, hi);
    if v.is_empty() {
        v.push(lo);
    }
    prop::sample::select(v).boxed()
}

/// the io::ErrorKind variants the source names (other than Interrupted)
pub fn error_kinds() -> Vec<std::io::ErrorKind> {
    use std::io::ErrorKind::*;
    let all = [
        ("NotFound", NotFound), ("PermissionDenied", PermissionDenied), ("ConnectionRefused", ConnectionRefused),
        ("ConnectionReset", ConnectionReset), ("ConnectionAborted", ConnectionAborted), ("NotConnected", NotConnected),
        ("AddrInUse", AddrInUse), ("AddrNotAvailable", AddrNotAvailable), ("BrokenPipe", BrokenPipe),
        ("AlreadyExists", AlreadyExists), ("WouldBlock", WouldBlock), ("InvalidInput", InvalidInput),
        ("InvalidData", InvalidData), ("TimedOut", TimedOut), ("WriteZero", WriteZero), ("UnexpectedEof", UnexpectedEof),
        ("Unsupported", Unsupported), ("OutOfMemory", OutOfMemory), ("Other", Other),
    ];
    all.iter().filter(|(n, _)| IDENTS.contains(n)).map(|(_, k)| *k).collect()
}

pub fn summary() -> String {
    format!("{} tokens, {} integers from the library source", TOKENS.len(), INTS.len())
}
