//! The `pbt` engine: seeded, sharded proptest runner with shrinking, counters,
//! evidence writer, replay reader, known-finding matcher and watchdog.

pub mod bytes;
pub mod dict;
pub mod fuzzrun;
pub mod gen;

use proptest::strategy::{BoxedStrategy, Strategy};
use proptest::test_runner::{
    Config, RngAlgorithm, RngSeed, TestCaseError, TestError, TestRng, TestRunner,
};
use serde::de::DeserializeOwned;
use serde::Serialize;
use serde_json::{json, Value};
use std::collections::{BTreeMap, HashSet};
use std::panic::{self, AssertUnwindSafe};
use std::path::{Path, PathBuf};
use std::sync::atomic::{AtomicBool, Ordering};
use std::sync::{Arc, Mutex};
use std::time::{Duration, Instant};

pub use bytes::B;

pub const SHARDS: usize = 8;
pub const WATCHDOG_SECS: u64 = 20;
/// stack of each shard thread (the code under test recurses once per brace group)
pub const SHARD_STACK: usize = 64 << 20;
pub const MAX_SAMPLES: usize = 6;

#[derive(Clone, Copy, Debug, PartialEq, Eq)]
pub enum Tier {
    Quick,
    Thorough,
}

impl Tier {
    pub fn name(self) -> &'static str {
        match self {
            Tier::Quick => "quick",
            Tier::Thorough => "thorough",
        }
    }
    /// pick a size by tier
    pub fn pick<T>(self, q: T, t: T) -> T {
        match self {
            Tier::Quick => q,
            Tier::Thorough => t,
        }
    }
}

pub fn verif_dir() -> PathBuf {
    std::env::var_os("VERIF_DIR")
        .map(PathBuf::from)
        .unwrap_or_else(|| PathBuf::from("/verif"))
}

/// What a check observed about one case.
#[derive(Default)]
pub struct Obs {
    /// non-trivial by the property's stated rule
    pub nontrivial: bool,
    /// skipped by construction (counted, not evaluated)
    pub excluded: bool,
    /// class labels for the histogram
    pub classes: Vec<&'static str>,
    /// number of API verdicts compared with the oracle
    pub verdicts: u64,
    /// ids of known findings this case ran into (inside the signature)
    pub known_hits: Vec<&'static str>,
    /// a case that enumerates sub-cases itself (e.g. all partitions of one stream) reports
    /// how many further executions it ran and how many of them were distinct and non-trivial
    pub sub_evaluations: u64,
    pub sub_nontrivial_distinct: u64,
}

impl Obs {
    pub fn class(&mut self, c: &'static str) {
        if !self.classes.contains(&c) {
            self.classes.push(c);
        }
    }
}

pub type CheckFn<C> = fn(&C, &mut Obs) -> Result<(), String>;

pub trait Case:
    std::fmt::Debug + Clone + Serialize + DeserializeOwned + Send + Sync + 'static
{
}
impl<T> Case for T where
    T: std::fmt::Debug + Clone + Serialize + DeserializeOwned + Send + Sync + 'static
{
}

/// How cases are produced.
pub enum Source<C> {
    /// proptest strategy, `cases(tier)` cases in total over all shards
    Random {
        make: fn(Tier) -> BoxedStrategy<C>,
        cases: fn(Tier) -> u64,
    },
    /// complete enumeration of a finite space (no shrinking)
    Enumerated {
        make: fn(Tier) -> Box<dyn Iterator<Item = C>>,
    },
}

pub struct Stream<C: Case> {
    pub name: &'static str,
    pub about: &'static str,
    pub source: Source<C>,
    pub check: CheckFn<C>,
    /// canonical rendering used for the distinct count (default: JSON of the case)
    pub key: Option<fn(&C) -> String>,
}

#[derive(Default, Clone)]
pub struct StreamReport {
    pub name: String,
    pub about: String,
    pub exhaustive: bool,
    pub replay_only: bool,
    pub evaluations: u64,
    pub excluded: u64,
    pub nontrivial: u64,
    /// distinct non-trivial sub-cases counted inside cases (added to the distinct total)
    pub sub_nontrivial: u64,
    pub verdicts: u64,
    pub distinct: HashSet<u64>,
    pub classes: BTreeMap<&'static str, u64>,
    pub known_hits: BTreeMap<&'static str, u64>,
    pub samples: Vec<Value>,
    /// the first cases evaluated, whatever they are (fallback when a run ends before it saw a
    /// non-trivial case, e.g. on an early violation)
    pub first_cases: Vec<Value>,
    pub class_samples: BTreeMap<&'static str, Value>,
    pub failure: Option<Failure>,
    pub wall_s: f64,
}

#[derive(Clone, Debug)]
pub struct Failure {
    pub stream: String,
    pub reason: String,
    pub case: Value,
    /// cases that have to run before `case` (same thread, in this order) for it to fail:
    /// empty for an ordinary failure, non-empty for a history-dependent one (state leaking
    /// between calls)
    pub history: Vec<Value>,
}

pub struct RunCtx {
    pub property: &'static str,
    pub tier: Tier,
    pub seed: u64,
    pub hang_is_violation: bool,
}

pub trait AnyStream: Send + Sync {
    fn name(&self) -> &'static str;
    fn run(&self, ctx: &RunCtx) -> StreamReport;
    /// run the check on exactly one stored case (after running the cases of `history`, whose
    /// own results are ignored, on the same fresh thread); Ok(Ok) = holds
    fn replay(&self, case: &Value, history: &[Value]) -> Result<Result<(), String>, String>;
}

fn fnv(s: &str) -> u64 {
    let mut h: u64 = 0xcbf29ce484222325;
    for b in s.as_bytes() {
        h ^= *b as u64;
        h = h.wrapping_mul(0x100000001b3);
    }
    h
}

fn mix(mut x: u64) -> u64 {
    x ^= x >> 30;
    x = x.wrapping_mul(0xbf58476d1ce4e5b9);
    x ^= x >> 27;
    x = x.wrapping_mul(0x94d049bb133111eb);
    x ^= x >> 31;
    x
}

fn shard_rng(seed: u64, property: &str, stream: &str, shard: usize) -> TestRng {
    let a = mix(seed ^ fnv(property));
    let b = mix(a ^ fnv(stream));
    let c = mix(b ^ (shard as u64 + 1));
    let d = mix(c ^ 0x9e3779b97f4a7c15);
    let mut bytes = [0u8; 32];
    bytes[0..8].copy_from_slice(&a.to_le_bytes());
    bytes[8..16].copy_from_slice(&b.to_le_bytes());
    bytes[16..24].copy_from_slice(&c.to_le_bytes());
    bytes[24..32].copy_from_slice(&d.to_le_bytes());
    TestRng::from_seed(RngAlgorithm::ChaCha, &bytes)
}

thread_local! {
    static LAST_PANIC: std::cell::RefCell<Option<String>> = const { std::cell::RefCell::new(None) };
}

/// Silence the default panic printing and remember message + location.
pub fn install_panic_hook() {
    panic::set_hook(Box::new(|info| {
        let msg = if let Some(s) = info.payload().downcast_ref::<&str>() {
            s.to_string()
        } else if let Some(s) = info.payload().downcast_ref::<String>() {
            s.clone()
        } else {
            "<non-string panic>".to_string()
        };
        let loc = info
            .location()
            .map(|l| format!("{}:{}", l.file(), l.line()))
            .unwrap_or_default();
        LAST_PANIC.with(|p| *p.borrow_mut() = Some(format!("{} at {}", msg, loc)));
    }));
}

/// Run a closure, turning a panic into Err("panic: ..").
pub fn guard<T>(f: impl FnOnce() -> T) -> Result<T, String> {
    match panic::catch_unwind(AssertUnwindSafe(f)) {
        Ok(v) => Ok(v),
        Err(_) => {
            let m = LAST_PANIC
                .with(|p| p.borrow_mut().take())
                .unwrap_or_else(|| "<unknown>".into());
            Err(format!("panic: {}", m))
        }
    }
}

pub fn run_check<C: Case>(check: CheckFn<C>, case: &C, obs: &mut Obs) -> Result<(), String> {
    match guard(|| check(case, obs)) {
        Ok(r) => r,
        Err(p) => Err(p),
    }
}

/// Run `history` (results ignored) and then `last` on a fresh thread, so that thread-local
/// state left behind by earlier cases of the run cannot influence the verdict.
pub fn run_sequence_fresh<C: Case>(check: CheckFn<C>, history: &[C], last: &C) -> Result<(), String> {
    std::thread::scope(|sc| {
        std::thread::Builder::new()
            .stack_size(SHARD_STACK)
            .spawn_scoped(sc, || {
                install_panic_hook();
                for h in history {
                    let mut o = Obs::default();
                    let _ = run_check(check, h, &mut o);
                }
                let mut o = Obs::default();
                run_check(check, last, &mut o)
            })
            .expect("spawn replay thread")
            .join()
            .unwrap_or_else(|_| Err("panic outside the guarded region".to_string()))
    })
}

/// How many preceding cases are remembered for history-dependent failures (upper bound; the
/// actual number is scaled down for streams with large cases so that the memory stays bounded)
pub const HISTORY_LEN: usize = 4000;
/// rough memory budget of the remembered cases per shard (bytes of their JSON rendering)
pub const HISTORY_BYTES: usize = 6 << 20;

struct Slot<C> {
    cur: Mutex<Option<(Instant, C)>>,
}

#[derive(Default)]
struct Acc {
    rep: StreamReport,
    failed: bool,
}

impl Acc {
    fn record<C: Case>(&mut self, case: &C, obs: &Obs, key: Option<fn(&C) -> String>) {
        let r = &mut self.rep;
        if obs.excluded {
            r.excluded += 1;
            return;
        }
        r.evaluations += 1 + obs.sub_evaluations;
        r.sub_nontrivial += obs.sub_nontrivial_distinct;
        r.verdicts += obs.verdicts;
        for k in &obs.known_hits {
            *r.known_hits.entry(k).or_insert(0) += 1;
        }
        for c in &obs.classes {
            *r.classes.entry(c).or_insert(0) += 1;
        }
        if r.first_cases.len() < 2 {
            r.first_cases.push(serde_json::to_value(case).unwrap_or(Value::Null));
        }
        let need_class_sample = obs.classes.iter().any(|c| !r.class_samples.contains_key(c));
        if obs.nontrivial {
            r.nontrivial += 1;
            let k = match key {
                Some(f) => f(case),
                None => serde_json::to_string(case).unwrap_or_default(),
            };
            let fresh = r.distinct.insert(mix(fnv(&k)));
            if fresh && r.samples.len() < MAX_SAMPLES {
                r.samples.push(serde_json::to_value(case).unwrap_or(Value::Null));
            }
        }
        if need_class_sample {
            let v = serde_json::to_value(case).unwrap_or(Value::Null);
            for c in &obs.classes {
                r.class_samples.entry(c).or_insert_with(|| v.clone());
            }
        }
    }
}

fn merge(into: &mut StreamReport, from: StreamReport) {
    into.evaluations += from.evaluations;
    into.excluded += from.excluded;
    into.nontrivial += from.nontrivial;
    into.sub_nontrivial += from.sub_nontrivial;
    into.verdicts += from.verdicts;
    into.distinct.extend(from.distinct);
    for (k, v) in from.classes {
        *into.classes.entry(k).or_insert(0) += v;
    }
    for (k, v) in from.known_hits {
        *into.known_hits.entry(k).or_insert(0) += v;
    }
    for s in from.samples {
        if into.samples.len() < MAX_SAMPLES {
            into.samples.push(s);
        }
    }
    for (k, v) in from.class_samples {
        into.class_samples.entry(k).or_insert(v);
    }
    for c in from.first_cases {
        if into.first_cases.len() < 2 {
            into.first_cases.push(c);
        }
    }
    if into.failure.is_none() {
        into.failure = from.failure;
    }
}

fn proptest_config(cases: u32) -> Config {
    let mut c = Config::default();
    c.cases = cases;
    c.max_local_rejects = u32::MAX;
    c.max_global_rejects = u32::MAX;
    c.max_flat_map_regens = 1_000_000;
    c.failure_persistence = None;
    c.source_file = None;
    c.test_name = None;
    c.max_shrink_iters = 4096;
    // shrinking a failure that needs a big case (a package database of hundreds of directories)
    // can take minutes at 4096 steps; the verdict does not depend on how far shrinking got, only
    // the size of the stored counter-example does
    c.max_shrink_time = 45_000;
    c.verbose = 0;
    c.rng_algorithm = RngAlgorithm::ChaCha;
    c.rng_seed = RngSeed::Fixed(0);
    c
}

fn write_replay(property: &str, tag: &str, f: &Failure, ctx: &RunCtx) -> PathBuf {
    let dir = verif_dir().join("replays");
    let _ = std::fs::create_dir_all(&dir);
    let body = json!({
        "property": property,
        "stream": f.stream,
        "case": f.case,
        "history": f.history,
        "reason": f.reason,
        "seed": ctx.seed,
        "tier": ctx.tier.name(),
    });
    let text = serde_json::to_string_pretty(&body).unwrap();
    let h = mix(fnv(&serde_json::to_string(&f.case).unwrap_or_default()) ^ fnv(&f.stream));
    let path = dir.join(format!("{}-{}{:012x}.json", property, tag, h & 0xffff_ffff_ffff));
    let _ = std::fs::write(&path, text);
    path
}

fn watchdog<C: Case>(
    slots: Arc<Vec<Slot<C>>>,
    stop: Arc<AtomicBool>,
    stream: &'static str,
    property: &'static str,
    seed: u64,
    tier: Tier,
    hang_is_violation: bool,
) {
    loop {
        std::thread::sleep(Duration::from_millis(250));
        if stop.load(Ordering::Relaxed) {
            return;
        }
        for s in slots.iter() {
            let stuck = {
                let g = s.cur.lock().unwrap();
                match &*g {
                    Some((t, c)) if t.elapsed() > Duration::from_secs(WATCHDOG_SECS) => {
                        Some(c.clone())
                    }
                    _ => None,
                }
            };
            if let Some(c) = stuck {
                let ctx = RunCtx { property, tier, seed, hang_is_violation };
                let f = Failure {
                    stream: stream.to_string(),
                    reason: format!("no result within {} s (watchdog)", WATCHDOG_SECS),
                    case: serde_json::to_value(&c).unwrap_or(Value::Null),
                    history: vec![],
                };
                let path = write_replay(property, "hang-", &f, &ctx);
                println!(
                    "WATCHDOG property={} stream={} case did not finish in {} s: {}",
                    property,
                    stream,
                    WATCHDOG_SECS,
                    serde_json::to_string(&f.case).unwrap_or_default()
                );
                if hang_is_violation {
                    // confirm in isolation with a 60 s budget
                    let exe = std::env::current_exe().unwrap();
                    let mut child = std::process::Command::new(exe)
                        .arg("replay")
                        .arg(&path)
                        .stdout(std::process::Stdio::null())
                        .spawn()
                        .expect("spawn replay");
                    let t0 = Instant::now();
                    let mut finished = false;
                    while t0.elapsed() < Duration::from_secs(60) {
                        if let Ok(Some(_)) = child.try_wait() {
                            finished = true;
                            break;
                        }
                        std::thread::sleep(Duration::from_millis(200));
                    }
                    if !finished {
                        let _ = child.kill();
                        println!("VIOLATION property={} replay={}", property, path.display());
                        std::process::exit(1);
                    }
                    println!("INCONCLUSIVE: hang did not reproduce in isolation");
                    std::process::exit(2);
                }
                println!(
                    "INCONCLUSIVE: hang in code under test (see C17), case saved to {}",
                    path.display()
                );
                std::process::exit(2);
            }
        }
    }
}

impl<C: Case> AnyStream for Stream<C> {
    fn name(&self) -> &'static str {
        self.name
    }

    fn replay(&self, case: &Value, history: &[Value]) -> Result<Result<(), String>, String> {
        let c: C = serde_json::from_value(case.clone()).map_err(|e| e.to_string())?;
        let mut hist: Vec<C> = vec![];
        for h in history {
            hist.push(serde_json::from_value(h.clone()).map_err(|e| e.to_string())?);
        }
        Ok(run_sequence_fresh(self.check, &hist, &c))
    }

    fn run(&self, ctx: &RunCtx) -> StreamReport {
        let t0 = Instant::now();
        let slots: Arc<Vec<Slot<C>>> =
            Arc::new((0..SHARDS).map(|_| Slot { cur: Mutex::new(None) }).collect());
        let stop = Arc::new(AtomicBool::new(false));
        let wd = {
            let (slots, stop) = (slots.clone(), stop.clone());
            let (name, property, seed, tier, hv) =
                (self.name, ctx.property, ctx.seed, ctx.tier, ctx.hang_is_violation);
            std::thread::spawn(move || watchdog(slots, stop, name, property, seed, tier, hv))
        };
        let check = self.check;
        let key = self.key;
        let name = self.name;
        let mut total = StreamReport {
            name: self.name.to_string(),
            about: self.about.to_string(),
            ..Default::default()
        };
        let reports: Vec<StreamReport> = match &self.source {
            Source::Random { cases, .. } if cases(ctx.tier) == 0 => {
                // replay-only stream
                stop.store(true, Ordering::Relaxed);
                let _ = wd.join();
                total.replay_only = true;
                return total;
            }
            Source::Random { make, cases } => {
                let n = cases(ctx.tier);
                let per = ((n + SHARDS as u64 - 1) / SHARDS as u64).max(1) as u32;
                std::thread::scope(|sc| {
                    let hs: Vec<_> = (0..SHARDS)
                        .map(|i| {
                            let slots = slots.clone();
                            let make = *make;
                            let (tier, seed, property) = (ctx.tier, ctx.seed, ctx.property);
                            std::thread::Builder::new().stack_size(SHARD_STACK).spawn_scoped(sc, move || {
                                install_panic_hook();
                                let strategy = make(tier);
                                let slow_ms: u64 = std::env::var("PV_SLOW_MS").ok().and_then(|v| v.parse().ok()).unwrap_or(0);
                                let rng = shard_rng(seed, property, name, i);
                                let mut runner =
                                    TestRunner::new_with_rng(proptest_config(per), rng);
                                let acc = std::cell::RefCell::new(Acc::default());
                                let recent: std::cell::RefCell<std::collections::VecDeque<C>> = Default::default();
                                let first_failure: std::cell::RefCell<Option<Vec<C>>> = Default::default();
                                let hist_cap = std::cell::Cell::new(HISTORY_LEN);
                                let seen_cases = std::cell::Cell::new(0usize);
                                let seen_bytes = std::cell::Cell::new(0usize);
                                let res = runner.run(&strategy, |c| {
                                    if first_failure.borrow().is_none() {
                                        // the first 32 cases calibrate how many can be remembered
                                        if seen_cases.get() < 32 {
                                            seen_cases.set(seen_cases.get() + 1);
                                            seen_bytes.set(seen_bytes.get() + serde_json::to_string(&c).map(|t| t.len()).unwrap_or(64));
                                            if seen_cases.get() == 32 {
                                                let avg = (seen_bytes.get() / 32).max(16);
                                                hist_cap.set((HISTORY_BYTES / avg).clamp(24, HISTORY_LEN));
                                            }
                                        }
                                        let mut r = recent.borrow_mut();
                                        while r.len() > hist_cap.get() {
                                            r.pop_front();
                                        }
                                        r.push_back(c.clone());
                                    }
                                    *slots[i].cur.lock().unwrap() = Some((Instant::now(), c.clone()));
                                    let mut obs = Obs::default();
                                    let t_case = Instant::now();
                                    let r = run_check(check, &c, &mut obs);
                                    *slots[i].cur.lock().unwrap() = None;
                                    if slow_ms > 0 && t_case.elapsed().as_millis() as u64 >= slow_ms {
                                        println!("SLOW {} ms: {}", t_case.elapsed().as_millis(), serde_json::to_string(&c).unwrap_or_default());
                                    }
                                    let mut a = acc.borrow_mut();
                                    if !a.failed {
                                        a.record(&c, &obs, key);
                                        if r.is_err() {
                                            a.failed = true;
                                            // the failing case and what ran before it on this thread
                                            *first_failure.borrow_mut() = Some(recent.borrow().iter().cloned().collect());
                                        }
                                    }
                                    r.map_err(TestCaseError::fail)
                                });
                                let mut a = acc.into_inner();
                                match res {
                                    Ok(()) => {}
                                    Err(TestError::Fail(reason, c)) => {
                                        let val = |x: &C| serde_json::to_value(x).unwrap_or(Value::Null);
                                        // (1) does the shrunk case fail on its own, on a fresh thread?
                                        match run_sequence_fresh(check, &[], &c) {
                                            Err(why) => {
                                                a.rep.failure = Some(Failure { stream: name.to_string(), reason: why, case: val(&c), history: vec![] });
                                            }
                                            Ok(()) => {
                                                // (2) history-dependent: replay what ran before the first
                                                // failing case, then drop every predecessor that is not needed
                                                let seq = first_failure.borrow().clone().unwrap_or_default();
                                                let (last, mut hist) = match seq.split_last() {
                                                    Some((l, h)) => (l.clone(), h.to_vec()),
                                                    None => (c.clone(), vec![]),
                                                };
                                                match run_sequence_fresh(check, &hist, &last) {
                                                    Err(why0) => {
                                                        // delta-debugging over the predecessors: drop chunks of
                                                        // halving size while the last case still fails (60 s budget)
                                                        let mut why = why0;
                                                        let t_min = Instant::now();
                                                        let mut chunk = (hist.len() / 2).max(1);
                                                        loop {
                                                            let mut k = 0;
                                                            while k < hist.len() && t_min.elapsed() < Duration::from_secs(60) {
                                                                let end = (k + chunk).min(hist.len());
                                                                let mut shorter = hist.clone();
                                                                shorter.drain(k..end);
                                                                match run_sequence_fresh(check, &shorter, &last) {
                                                                    Err(w) => {
                                                                        hist = shorter;
                                                                        why = w;
                                                                    }
                                                                    Ok(()) => k = end,
                                                                }
                                                            }
                                                            if chunk == 1 || t_min.elapsed() >= Duration::from_secs(60) {
                                                                break;
                                                            }
                                                            chunk = (chunk / 2).max(1);
                                                        }
                                                        a.rep.failure = Some(Failure {
                                                            stream: name.to_string(),
                                                            reason: format!("{} [only after the {} preceding case(s) of the replay file ran on the same thread: state is carried from one call to the next]", why, hist.len()),
                                                            case: val(&last),
                                                            history: hist.iter().map(val).collect(),
                                                        });
                                                    }
                                                    Ok(()) => {
                                                        // not a verdict of its own; kept until the end so that a
                                                        // reproducible failure of another shard or stream is still
                                                        // reported as the violation it is
                                                        UNREPRODUCED.lock().unwrap().push(format!(
                                                            "stream {} reported a failure ({}) that reproduces neither on its own nor after the {} cases that preceded it",
                                                            name, reason, hist.len()
                                                        ));
                                                    }
                                                }
                                            }
                                        }
                                    }
                                    Err(TestError::Abort(reason)) => {
                                        // generator health problem: never a violation
                                        println!(
                                            "INCONCLUSIVE: generator aborted in stream {}: {}",
                                            name, reason
                                        );
                                        std::process::exit(2);
                                    }
                                }
                                a.rep
                            })
                            .expect("spawn shard")
                        })
                        .collect();
                    hs.into_iter().map(|h| h.join().expect("shard thread")).collect()
                })
            }
            Source::Enumerated { make } => {
                total.exhaustive = true;
                std::thread::scope(|sc| {
                    let hs: Vec<_> = (0..SHARDS)
                        .map(|i| {
                            let slots = slots.clone();
                            let make = *make;
                            let tier = ctx.tier;
                            std::thread::Builder::new().stack_size(SHARD_STACK).spawn_scoped(sc, move || {
                                install_panic_hook();
                                let mut a = Acc::default();
                                for c in make(tier).skip(i).step_by(SHARDS) {
                                    *slots[i].cur.lock().unwrap() = Some((Instant::now(), c.clone()));
                                    let mut obs = Obs::default();
                                    let r = run_check(check, &c, &mut obs);
                                    *slots[i].cur.lock().unwrap() = None;
                                    a.record(&c, &obs, key);
                                    if let Err(e) = r {
                                        a.rep.failure = Some(Failure {
                                            stream: name.to_string(),
                                            reason: e,
                                            case: serde_json::to_value(&c).unwrap_or(Value::Null),
                                            history: vec![],
                                        });
                                        break;
                                    }
                                }
                                a.rep
                            })
                            .expect("spawn shard")
                        })
                        .collect();
                    hs.into_iter().map(|h| h.join().expect("shard thread")).collect()
                })
            }
        };
        stop.store(true, Ordering::Relaxed);
        let _ = wd.join();
        for r in reports {
            merge(&mut total, r);
        }
        total.wall_s = t0.elapsed().as_secs_f64();
        total
    }
}

/// One property = a set of streams plus metadata.
pub struct Property {
    pub id: &'static str,
    pub rule: &'static str,
    pub assumptions: Vec<&'static str>,
    pub streams: Vec<Box<dyn AnyStream>>,
    /// oracle self-checks; failure is exit 2
    pub selfcheck: fn() -> Result<(), String>,
    /// a watchdog trip is a violation of this property (C17 only)
    pub hang_is_violation: bool,
    /// minimum share of non-trivial cases over the whole run (generator health, exit 2)
    pub min_nontrivial_share: f64,
    /// extra evidence produced by the property (e.g. fuzz campaign statistics)
    pub extra: Option<fn(&RunCtx) -> Result<Value, Failure>>,
}

#[derive(serde::Deserialize, Debug, Clone)]
pub struct StoredCase {
    pub property: String,
    pub stream: String,
    pub case: Value,
    #[serde(default)]
    pub reason: String,
    #[serde(default)]
    pub history: Vec<Value>,
}

#[derive(serde::Deserialize, Debug, Clone)]
pub struct KnownFinding {
    pub status: String, // "known" | "fixed"
    pub property: String,
    pub id: String,
    pub what: String,
    #[serde(default)]
    pub line: String,
    #[serde(default)]
    pub commit: String,
    #[serde(default)]
    pub signature: String,
    #[serde(default)]
    pub witness: Option<StoredCaseRef>,
    #[serde(default)]
    pub regression: Option<String>,
}

#[derive(serde::Deserialize, Debug, Clone)]
pub struct StoredCaseRef {
    pub stream: String,
    pub case: Value,
    /// run the witness in a child process (for failures that end the process, e.g. a stack
    /// overflow): killed by a signal / exit 1 / no result in 60 s = "still fails"
    #[serde(default)]
    pub isolate: bool,
}

pub fn load_known_findings() -> Vec<KnownFinding> {
    let p = verif_dir().join("known_findings.json");
    match std::fs::read_to_string(&p) {
        Ok(t) => {
            let v: Value = serde_json::from_str(&t).unwrap_or_else(|e| {
                println!("INCONCLUSIVE: known_findings.json unreadable: {}", e);
                std::process::exit(2);
            });
            let arr = v.get("findings").cloned().unwrap_or(json!([]));
            serde_json::from_value(arr).unwrap_or_else(|e| {
                println!("INCONCLUSIVE: known_findings.json malformed: {}", e);
                std::process::exit(2);
            })
        }
        Err(_) => vec![],
    }
}

/// Replay one stored case on a helper thread; a case that does not finish within the watchdog
/// budget ends the process (violation for the no-hang property, inconclusive otherwise).
fn timed_replay(
    s: &dyn AnyStream,
    case: &Value,
    history: &[Value],
    what: &str,
    property: &str,
    hang_is_violation: bool,
) -> Result<Result<(), String>, String> {
    std::thread::scope(|sc| {
        let (tx, rx) = std::sync::mpsc::channel();
        std::thread::Builder::new()
            .stack_size(SHARD_STACK)
            .spawn_scoped(sc, move || {
                install_panic_hook();
                let _ = tx.send(s.replay(case, history));
            })
            .expect("spawn replay");
        match rx.recv_timeout(Duration::from_secs(WATCHDOG_SECS)) {
            Ok(r) => r,
            Err(_) => {
                println!("{} did not finish within {} s", what, WATCHDOG_SECS);
                if hang_is_violation {
                    println!("VIOLATION property={} replay={}", property, what);
                    std::process::exit(1);
                }
                println!("INCONCLUSIVE: hang in code under test (see C17)");
                std::process::exit(2);
            }
        }
    })
}

/// Replay a witness in a child process; Ok(Err(..)) = it still fails.
fn isolated_replay(property: &str, id: &str, w: &StoredCaseRef) -> Result<Result<(), String>, String> {
    let dir = verif_dir().join("replays");
    let _ = std::fs::create_dir_all(&dir);
    let path = dir.join(format!("witness-{}-{}.json", property, id));
    let body = json!({"property": property, "stream": w.stream, "case": w.case, "reason": "witness of a known finding"});
    std::fs::write(&path, serde_json::to_string_pretty(&body).unwrap()).map_err(|e| e.to_string())?;
    let exe = std::env::current_exe().map_err(|e| e.to_string())?;
    let mut child = std::process::Command::new(exe)
        .arg("replay")
        .arg(&path)
        .stdout(std::process::Stdio::null())
        .stderr(std::process::Stdio::null())
        .spawn()
        .map_err(|e| e.to_string())?;
    let t0 = Instant::now();
    loop {
        match child.try_wait() {
            Ok(Some(st)) => {
                return Ok(match st.code() {
                    Some(0) => Ok(()),
                    Some(1) => Err("the witness still fails".to_string()),
                    Some(c) => return Err(format!("witness replay exited with {}", c)),
                    None => Err("the witness still ends the process with a signal".to_string()),
                })
            }
            Ok(None) if t0.elapsed() > Duration::from_secs(60) => {
                let _ = child.kill();
                return Ok(Err("the witness still does not finish within 60 s".to_string()));
            }
            Ok(None) => std::thread::sleep(Duration::from_millis(50)),
            Err(e) => return Err(e.to_string()),
        }
    }
}

fn find_stream<'a>(p: &'a Property, name: &str) -> Option<&'a dyn AnyStream> {
    p.streams.iter().find(|s| s.name() == name).map(|b| b.as_ref())
}

fn regression_files(property: &str) -> Vec<PathBuf> {
    let dir = verif_dir().join("regressions").join(property);
    let mut v: Vec<PathBuf> = match std::fs::read_dir(&dir) {
        Ok(rd) => rd
            .filter_map(|e| e.ok().map(|e| e.path()))
            .filter(|p| p.extension().map(|e| e == "json").unwrap_or(false))
            .collect(),
        Err(_) => vec![],
    };
    v.sort();
    v
}

pub fn load_stored(path: &Path) -> Result<StoredCase, String> {
    let t = std::fs::read_to_string(path).map_err(|e| format!("{}: {}", path.display(), e))?;
    serde_json::from_str(&t).map_err(|e| format!("{}: {}", path.display(), e))
}

/// Run one property at one tier; returns the process exit code.
/// failures that could not be reproduced (alone or after their predecessors): exit 2 at the end
/// unless a reproducible violation was found as well
static UNREPRODUCED: std::sync::Mutex<Vec<String>> = std::sync::Mutex::new(Vec::new());

pub fn run_property(p: &Property, tier: Tier, seed: u64) -> i32 {
    let t0 = Instant::now();
    install_panic_hook();
    if let Err(e) = (p.selfcheck)() {
        println!("INCONCLUSIVE: oracle self-check failed for {}: {}", p.id, e);
        return 2;
    }
    let ctx = RunCtx { property: p.id, tier, seed, hang_is_violation: p.hang_is_violation };
    let mut violations: Vec<(String, PathBuf)> = vec![];
    let mut known_lines: Vec<String> = vec![];

    // 1. known findings: witnesses re-run on every run
    let kfs = load_known_findings();
    let mut known_report = vec![];
    for k in kfs.iter().filter(|k| k.property == p.id && k.status == "known") {
        if let Some(w) = &k.witness {
            let outcome = if w.isolate {
                Some(isolated_replay(p.id, &k.id, w))
            } else {
                find_stream(p, &w.stream).map(|s| timed_replay(s, &w.case, &[], &format!("witness of {}", k.id), p.id, false))
            };
            match outcome {
                Some(Ok(Err(_still_fails))) => {
                    let line = format!("KNOWN-FINDING: property={} {}", p.id, k.what);
                    println!("{}", line);
                    known_lines.push(line);
                    known_report.push(json!({"id": k.id, "witness_still_fails": true, "what": k.what}));
                }
                Some(Ok(Ok(()))) => {
                    known_report.push(json!({"id": k.id, "witness_still_fails": false, "what": k.what}));
                }
                other => {
                    println!(
                        "INCONCLUSIVE: witness of known finding {} cannot be replayed: {:?}",
                        k.id,
                        other.map(|r| r.err())
                    );
                    return 2;
                }
            }
        }
    }

    // 2. regressions, strict
    let mut regressions = 0u64;
    for f in regression_files(p.id) {
        let sc = match load_stored(&f) {
            Ok(s) => s,
            Err(e) => {
                println!("INCONCLUSIVE: {}", e);
                return 2;
            }
        };
        let Some(s) = find_stream(p, &sc.stream) else {
            println!("INCONCLUSIVE: regression {} names unknown stream {}", f.display(), sc.stream);
            return 2;
        };
        match timed_replay(s, &sc.case, &sc.history, &f.display().to_string(), p.id, p.hang_is_violation) {
            Ok(Ok(())) => regressions += 1,
            Ok(Err(why)) => {
                regressions += 1;
                println!("regression {} fails: {}", f.display(), why);
                violations.push((why, f.clone()));
            }
            Err(e) => {
                println!("INCONCLUSIVE: regression {} not decodable: {}", f.display(), e);
                return 2;
            }
        }
    }

    // 3. generated streams
    let mut reports: Vec<StreamReport> = vec![];
    for s in &p.streams {
        let r = s.run(&ctx);
        if let Some(f) = &r.failure {
            let path = write_replay(p.id, "", f, &ctx);
            println!(
                "counter-example in stream {} (shrunk): {}\n  reason: {}",
                f.stream,
                serde_json::to_string(&f.case).unwrap_or_default(),
                f.reason
            );
            violations.push((f.reason.clone(), path));
        }
        if !r.replay_only {
            reports.push(r);
        }
    }

    // 4. extra (fuzz campaigns etc.)
    let mut extra = Value::Null;
    if let Some(x) = p.extra {
        match x(&ctx) {
            Ok(v) => extra = v,
            Err(f) => {
                let path = write_replay(p.id, "fuzz-", &f, &ctx);
                println!("counter-example from {}: {}", f.stream, f.reason);
                violations.push((f.reason.clone(), path));
            }
        }
    }

    // 5. evidence
    let evaluations: u64 = reports.iter().map(|r| r.evaluations).sum();
    let distinct: u64 = reports.iter().map(|r| r.distinct.len() as u64 + r.sub_nontrivial).sum();
    let nontrivial: u64 = reports.iter().map(|r| r.nontrivial + r.sub_nontrivial).sum();
    let mut samples: Vec<Value> = vec![];
    for r in &reports {
        for s in r.samples.iter().take(3) {
            samples.push(json!({"stream": r.name, "case": s}));
        }
    }
    if samples.is_empty() {
        for r in &reports {
            for c in &r.first_cases {
                samples.push(json!({"stream": r.name, "case": c, "note": "no non-trivial case was seen before the run ended"}));
            }
            if let Some(f) = &r.failure {
                samples.push(json!({"stream": r.name, "case": f.case, "note": "failing case"}));
            }
        }
    }
    let streams_json: Vec<Value> = reports
        .iter()
        .map(|r| {
            json!({
                "stream": r.name,
                "about": r.about,
                "exhaustive": r.exhaustive,
                "evaluations": r.evaluations,
                "excluded_by_construction": r.excluded,
                "nontrivial": r.nontrivial,
                "distinct_nontrivial": r.distinct.len() as u64 + r.sub_nontrivial,
                "oracle_verdicts": r.verdicts,
                "classes": r.classes,
                "known_finding_hits": r.known_hits,
                "class_samples": r.class_samples,
                "wall_s": (r.wall_s * 1000.0).round() / 1000.0,
                "failed": r.failure.is_some(),
            })
        })
        .collect();
    let all_exhaustive = !reports.is_empty() && reports.iter().all(|r| r.exhaustive);
    let ev = json!({
        "property_id": p.id,
        "tier": tier.name(),
        "seed": seed,
        "level": "exploration",
        "coverage": {
            "evaluations": evaluations,
            "distinct_nontrivial": distinct,
            "nontrivial_total": nontrivial,
            "rule": p.rule,
            "samples": samples,
            "exhaustive": all_exhaustive,
            "streams": streams_json,
            "regressions_replayed": regressions,
            "known_findings": known_report,
            "extra": extra,
            "shards": SHARDS,
        },
        "assumptions": p.assumptions,
        "wall_s": (t0.elapsed().as_secs_f64() * 1000.0).round() / 1000.0,
        "violations": violations.len(),
    });
    let evdir = verif_dir().join("evidence");
    let _ = std::fs::create_dir_all(&evdir);
    let evpath = evdir.join(format!("{}.json", p.id));
    if let Err(e) = std::fs::write(&evpath, serde_json::to_string_pretty(&ev).unwrap() + "\n") {
        println!("INCONCLUSIVE: cannot write evidence {}: {}", evpath.display(), e);
        return 2;
    }

    for r in &reports {
        println!(
            "  stream {:<22} evaluations={:<9} nontrivial={:<9} distinct={:<9} excluded={:<7} verdicts={:<10} {:.2}s",
            r.name,
            r.evaluations,
            r.nontrivial + r.sub_nontrivial,
            r.distinct.len() as u64 + r.sub_nontrivial,
            r.excluded,
            r.verdicts,
            r.wall_s
        );
    }
    if !violations.is_empty() {
        for (_, path) in &violations {
            println!("VIOLATION property={} replay={}", p.id, path.display());
        }
        return 1;
    }
    if let Some(u) = UNREPRODUCED.lock().unwrap().first() {
        println!("INCONCLUSIVE: {}", u);
        return 2;
    }
    // generator health: never a violation.  A stream most of whose cases fall outside the
    // check's own domain tests little, however many cases it counts
    for r in &reports {
        if r.excluded > r.evaluations && r.excluded > 100 {
            println!(
                "INCONCLUSIVE: generator health: stream {} has {} of {} generated cases outside the domain of its check",
                r.name,
                r.excluded,
                r.excluded + r.evaluations
            );
            return 2;
        }
    }
    if evaluations > 0 && (nontrivial as f64) < p.min_nontrivial_share * evaluations as f64 {
        println!(
            "INCONCLUSIVE: generator health: only {} of {} cases non-trivial (< {:.3})",
            nontrivial, evaluations, p.min_nontrivial_share
        );
        return 2;
    }
    println!(
        "OK property={} tier={} seed={} evaluations={} distinct_nontrivial={} wall={:.1}s",
        p.id,
        tier.name(),
        seed,
        evaluations,
        distinct,
        t0.elapsed().as_secs_f64()
    );
    0
}

/// Replay one stored case strictly (bypasses proptest / libFuzzer).
pub fn replay_file(props: &[Property], path: &Path) -> i32 {
    install_panic_hook();
    let sc = match load_stored(path) {
        Ok(s) => s,
        Err(e) => {
            println!("INCONCLUSIVE: {}", e);
            return 2;
        }
    };
    let Some(p) = props.iter().find(|p| p.id == sc.property) else {
        println!("INCONCLUSIVE: unknown property {}", sc.property);
        return 2;
    };
    let Some(s) = find_stream(p, &sc.stream) else {
        println!("INCONCLUSIVE: unknown stream {}", sc.stream);
        return 2;
    };
    match s.replay(&sc.case, &sc.history) {
        Ok(Ok(())) => {
            println!("replay {}: property {} holds on this case", path.display(), p.id);
            0
        }
        Ok(Err(why)) => {
            println!("replay {}: {}", path.display(), why);
            println!("VIOLATION property={} replay={}", p.id, path.display());
            1
        }
        Err(e) => {
            println!("INCONCLUSIVE: {}", e);
            2
        }
    }
}

/// helper for building a boxed random stream
pub fn random_stream<C: Case>(
    name: &'static str,
    about: &'static str,
    make: fn(Tier) -> BoxedStrategy<C>,
    cases: fn(Tier) -> u64,
    check: CheckFn<C>,
) -> Box<dyn AnyStream> {
    Box::new(Stream { name, about, source: Source::Random { make, cases }, check, key: None })
}

pub fn enumerated_stream<C: Case>(
    name: &'static str,
    about: &'static str,
    make: fn(Tier) -> Box<dyn Iterator<Item = C>>,
    check: CheckFn<C>,
) -> Box<dyn AnyStream> {
    Box::new(Stream { name, about, source: Source::Enumerated { make }, check, key: None })
}

pub fn boxed<S: Strategy + 'static>(s: S) -> BoxedStrategy<S::Value> {
    s.boxed()
}
