//! Small generator helpers shared by the property modules.

use proptest::prelude::*;
use proptest::strategy::BoxedStrategy;

/// Monotone index mapping (keeps shrinking effective): selector in 0..=65535 -> 0..len
pub fn idx(sel: u16, len: usize) -> usize {
    if len == 0 {
        0
    } else {
        ((sel as usize) * len) >> 16
    }
}

/// choose one of a static list of &str
pub fn one_of(items: &'static [&'static str]) -> BoxedStrategy<String> {
    (0..items.len()).prop_map(move |i| items[i].to_string()).boxed()
}

/// choose one of a static list of byte strings
pub fn one_of_bytes(items: &'static [&'static [u8]]) -> BoxedStrategy<Vec<u8>> {
    (0..items.len()).prop_map(move |i| items[i].to_vec()).boxed()
}

/// apply a case mask to ASCII letters of `s`
pub fn apply_case(s: &str, mask: u32) -> String {
    s.chars()
        .enumerate()
        .map(|(i, c)| if mask >> (i % 32) & 1 == 1 { c.to_ascii_uppercase() } else { c })
        .collect()
}

/// digits string of a given length from a u64 pool
pub fn digits(len: usize, pool: u64, pool2: u64) -> String {
    let s = format!("{:020}{:020}", pool, pool2);
    s[s.len() - len.min(40)..].to_string()
}

/// lengths / counts in `0..=max` that defects like to key on: numbers the library's own source
/// mentions (and their neighbours), powers of two and of ten and their neighbours, and - half of
/// the time - any value of the range
pub fn interesting_len(max: usize) -> BoxedStrategy<usize> {
    let mut special: Vec<usize> = crate::engine::dict::ints_in(0, max as u64).into_iter().map(|n| n as usize).collect();
    let mut p = 1usize;
    while p <= max.saturating_add(1) {
        special.extend([p.saturating_sub(1), p, p + 1]);
        p = p.saturating_mul(2);
    }
    let mut p = 10usize;
    while p <= max.saturating_add(1) {
        special.extend([p - 1, p, p + 1]);
        p = p.saturating_mul(10);
    }
    special.extend([0, 1, max]);
    special.retain(|n| *n <= max);
    special.sort();
    special.dedup();
    prop_oneof![1 => prop::sample::select(special), 1 => 0..=max].boxed()
}

/// strings of up to `max_len` characters over a small alphabet: `k` symbols picked from `pool`
/// (so that short multi-character sequences of structural characters come up by chance)
pub fn small_alphabet(pool: &'static [char], k: usize, max_len: usize) -> BoxedStrategy<String> {
    (prop::collection::vec(0..pool.len(), k), prop::collection::vec(any::<u16>(), 0..=max_len))
        .prop_map(move |(syms, sel)| sel.iter().map(|s| pool[syms[idx(*s, syms.len())]]).collect::<String>())
        .boxed()
}

/// numbers defects like to key on: 2^k and 10^k with their neighbours, the numbers the library's
/// own source mentions with theirs, bounded by `max`
pub fn interesting_u64(max: u64) -> BoxedStrategy<u64> {
    let mut v: Vec<u64> = crate::engine::dict::ints_in(0, max);
    for k in [7u32, 8, 10, 12, 15, 16, 20, 24, 31, 32, 40, 48, 53, 62, 63] {
        let p = 1u64 << k;
        v.extend([p - 1, p, p + 1]);
        // a few more neighbours below the power (fields with a bias, saturating counters)
        v.extend((2..=8).map(|d| p - d));
    }
    v.push(u64::MAX);
    let mut p = 10u64;
    for _ in 1..19 {
        v.extend([p - 1, p, p + 1]);
        p *= 10;
    }
    v.retain(|n| *n <= max);
    v.sort();
    v.dedup();
    prop::sample::select(v).boxed()
}

/// a character of U+00A1..=U+00FF: the second byte of its UTF-8 form ranges over 0x80..=0xBF
pub fn latin1_char() -> BoxedStrategy<char> {
    (0xa1u32..=0xff).prop_map(|c| char::from_u32(c).unwrap()).boxed()
}

/// magnitudes at which a narrower integer type, a packed field or a fixed buffer changes its
/// behaviour: 2^k and 10^k (k chosen), each minus 0..=4 and plus 1, below `max`
pub fn magnitude_neighbours(max: u64) -> Vec<u64> {
    let mut v = vec![];
    for k in [7u32, 8, 15, 16, 24, 31, 32, 33, 48, 53, 62, 63] {
        let p = 1u64 << k;
        v.extend((0..=4).map(|d| p - d));
        v.push(p + 1);
    }
    let mut p = 100u64;
    for _ in 2..19 {
        v.extend([p - 1, p, p + 1]);
        p = p.saturating_mul(10);
    }
    v.retain(|n| *n <= max);
    v.sort();
    v.dedup();
    v
}
