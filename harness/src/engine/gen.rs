//! Small generator helpers shared by the property modules.

use proptest::prelude::*;
use proptest::strategy::BoxedStrategy;

/// Monotone index mapping (keeps shrinking effective): selector in 0..=65535 -> 0..len
pub fn idx(sel: u16, len: usize) -> usize {
    if len == 0 {
        0
    } else {
        ((sel as usize) * len) >> 16
    }
}

/// choose one of a static list of &str
pub fn one_of(items: &'static [&'static str]) -> BoxedStrategy<String> {
    (0..items.len()).prop_map(move |i| items[i].to_string()).boxed()
}

/// choose one of a static list of byte strings
pub fn one_of_bytes(items: &'static [&'static [u8]]) -> BoxedStrategy<Vec<u8>> {
    (0..items.len()).prop_map(move |i| items[i].to_vec()).boxed()
}

/// apply a case mask to ASCII letters of `s`
pub fn apply_case(s: &str, mask: u32) -> String {
    s.chars()
        .enumerate()
        .map(|(i, c)| if mask >> (i % 32) & 1 == 1 { c.to_ascii_uppercase() } else { c })
        .collect()
}

/// digits string of a given length from a u64 pool
pub fn digits(len: usize, pool: u64, pool2: u64) -> String {
    let s = format!("{:020}{:020}", pool, pool2);
    s[s.len() - len.min(40)..].to_string()
}
