#![no_main]
use libfuzzer_sys::fuzz_target;

// thin wrapper: generator decoding, oracle and tolerated-panic policy live in pkgsrc_verif::fuzz
fuzz_target!(|data: &[u8]| {
    pkgsrc_verif::fuzz::entry("scan_lines", data);
});
