//! Source-literal dictionary: every string, byte-string, character and integer literal in the
//! library's own source (comments skipped) is collected at build time and offered to the
//! generators as extra tokens (see src/engine/dict.rs).  A defect that keys on one particular value
//! has to spell that value somewhere in the code; taking the tokens from the tree that is being
//! compiled puts such a value within reach of generated input without anyone naming it.  The
//! dictionary only ever widens what is generated: every use site filters the tokens by the
//! character class of its own input domain.

use std::collections::BTreeSet;
use std::fs;
use std::path::{Path, PathBuf};

fn rs_files(dir: &Path, out: &mut Vec<PathBuf>) {
    let mut entries: Vec<PathBuf> = match fs::read_dir(dir) {
        Ok(rd) => rd.filter_map(|e| e.ok().map(|e| e.path())).collect(),
        Err(_) => return,
    };
    entries.sort();
    for p in entries {
        if p.is_dir() {
            rs_files(&p, out);
        } else if p.extension().map(|e| e == "rs").unwrap_or(false) {
            out.push(p);
        }
    }
}

/// decode the body of a (byte) string or character literal
fn unescape(body: &[u8]) -> Option<Vec<u8>> {
    let mut out = vec![];
    let mut i = 0;
    while i < body.len() {
        if body[i] != b'\\' {
            out.push(body[i]);
            i += 1;
            continue;
        }
        i += 1;
        let c = *body.get(i)?;
        i += 1;
        match c {
            b'n' => out.push(b'\n'),
            b't' => out.push(b'\t'),
            b'r' => out.push(b'\r'),
            b'0' => out.push(0),
            b'\\' => out.push(b'\\'),
            b'\'' => out.push(b'\''),
            b'"' => out.push(b'"'),
            b'x' => {
                let h = std::str::from_utf8(body.get(i..i + 2)?).ok()?;
                out.push(u8::from_str_radix(h, 16).ok()?);
                i += 2;
            }
            b'u' => {
                if *body.get(i)? != b'{' {
                    return None;
                }
                let end = body[i..].iter().position(|b| *b == b'}')? + i;
                let h: String = std::str::from_utf8(&body[i + 1..end]).ok()?.chars().filter(|c| *c != '_').collect();
                let ch = char::from_u32(u32::from_str_radix(&h, 16).ok()?)?;
                let mut buf = [0u8; 4];
                out.extend_from_slice(ch.encode_utf8(&mut buf).as_bytes());
                i = end + 1;
            }
            b'\n' => {
                // line continuation: skip the leading white space of the next line
                while i < body.len() && (body[i] as char).is_ascii_whitespace() {
                    i += 1;
                }
            }
            _ => return None,
        }
    }
    Some(out)
}

fn scan(src: &[u8], strings: &mut BTreeSet<Vec<u8>>, ints: &mut BTreeSet<u64>, idents: &mut BTreeSet<String>) {
    let n = src.len();
    let mut i = 0;
    let is_ident = |b: u8| b.is_ascii_alphanumeric() || b == b'_';
    while i < n {
        let b = src[i];
        // comments
        if b == b'/' && i + 1 < n && src[i + 1] == b'/' {
            while i < n && src[i] != b'\n' {
                i += 1;
            }
            continue;
        }
        if b == b'/' && i + 1 < n && src[i + 1] == b'*' {
            let mut depth = 1;
            i += 2;
            while i < n && depth > 0 {
                if src[i] == b'/' && i + 1 < n && src[i + 1] == b'*' {
                    depth += 1;
                    i += 2;
                } else if src[i] == b'*' && i + 1 < n && src[i + 1] == b'/' {
                    depth -= 1;
                    i += 2;
                } else {
                    i += 1;
                }
            }
            continue;
        }
        // raw strings r"..", r#".."#, br".."
        if (b == b'r' || (b == b'b' && i + 1 < n && src[i + 1] == b'r')) && (i == 0 || !is_ident(src[i - 1])) {
            let mut j = i + if b == b'b' { 2 } else { 1 };
            let mut hashes = 0;
            while j < n && src[j] == b'#' {
                hashes += 1;
                j += 1;
            }
            if j < n && src[j] == b'"' {
                let start = j + 1;
                let mut k = start;
                let mut found = None;
                while k < n {
                    if src[k] == b'"' && k + 1 + hashes <= n && src[k + 1..k + 1 + hashes].iter().all(|c| *c == b'#') {
                        found = Some(k);
                        break;
                    }
                    k += 1;
                }
                if let Some(k) = found {
                    strings.insert(src[start..k].to_vec());
                    i = k + 1 + hashes;
                    continue;
                }
            }
        }
        // strings and byte strings
        if b == b'"' {
            let start = i + 1;
            let mut k = start;
            while k < n && src[k] != b'"' {
                if src[k] == b'\\' {
                    k += 1;
                }
                k += 1;
            }
            if k < n {
                if let Some(v) = unescape(&src[start..k]) {
                    strings.insert(v);
                }
            }
            i = k + 1;
            continue;
        }
        // character and byte literals (as opposed to lifetimes)
        if b == b'\'' {
            if i + 2 < n && src[i + 1] == b'\\' {
                if let Some(off) = src[i + 2..].iter().take(12).position(|c| *c == b'\'') {
                    // '\'' : the quote right after the backslash is the escaped character
                    let off = if off == 0 { 1 } else { off };
                    let end = i + 2 + off;
                    if end < n && src[end] == b'\'' {
                        if let Some(v) = unescape(&src[i + 1..end]) {
                            strings.insert(v);
                        }
                        i = end + 1;
                        continue;
                    }
                }
            } else if i + 2 < n {
                // one UTF-8 character followed by a closing quote
                let len = match src[i + 1] {
                    0x00..=0x7f => 1,
                    0xc0..=0xdf => 2,
                    0xe0..=0xef => 3,
                    _ => 4,
                };
                if i + 1 + len < n && src[i + 1 + len] == b'\'' && src[i + 1] != b'\'' {
                    strings.insert(src[i + 1..i + 1 + len].to_vec());
                    i += len + 2;
                    continue;
                }
            }
            i += 1;
            continue;
        }
        // identifiers (kept only for io::ErrorKind variant names) and integer literals
        if b.is_ascii_alphabetic() || b == b'_' {
            let start = i;
            while i < n && is_ident(src[i]) {
                i += 1;
            }
            if i + 1 < n && src[i] == b'"' {
                // prefix of a string literal (b"..."): let the string branch take it
                continue;
            }
            idents.insert(String::from_utf8_lossy(&src[start..i]).into_owned());
            continue;
        }
        if b.is_ascii_digit() {
            let start = i;
            while i < n && (is_ident(src[i])) {
                i += 1;
            }
            let tok: String = String::from_utf8_lossy(&src[start..i]).chars().filter(|c| *c != '_').collect();
            let strip = |t: &str| -> String {
                let mut t = t.to_string();
                for suf in ["usize", "isize", "u8", "u16", "u32", "u64", "u128", "i8", "i16", "i32", "i64", "i128"] {
                    if let Some(s) = t.strip_suffix(suf) {
                        t = s.to_string();
                        break;
                    }
                }
                t
            };
            let t = strip(&tok);
            let v = if let Some(h) = t.strip_prefix("0x") {
                u64::from_str_radix(h, 16).ok()
            } else if let Some(o) = t.strip_prefix("0o") {
                u64::from_str_radix(o, 8).ok()
            } else if let Some(bn) = t.strip_prefix("0b") {
                u64::from_str_radix(bn, 2).ok()
            } else {
                t.parse::<u64>().ok()
            };
            if let Some(v) = v {
                ints.insert(v);
            }
            continue;
        }
        i += 1;
    }
}

fn main() {
    let manifest = PathBuf::from(std::env::var("CARGO_MANIFEST_DIR").unwrap());
    let toml = fs::read_to_string(manifest.join("Cargo.toml")).unwrap();
    // the path of the `pkgsrc` dependency, as written in this crate's own manifest
    let repo = toml
        .lines()
        .find(|l| l.trim_start().starts_with("pkgsrc") && l.contains("path"))
        .and_then(|l| l.split("path").nth(1))
        .and_then(|r| r.split('"').nth(1))
        .map(|p| {
            let p = PathBuf::from(p);
            if p.is_absolute() {
                p
            } else {
                manifest.join(p)
            }
        })
        .expect("pkgsrc dependency path in Cargo.toml");
    let src_dir = repo.join("src");
    println!("cargo:rerun-if-changed={}", src_dir.display());
    println!("cargo:rerun-if-changed=build.rs");
    println!("cargo:rerun-if-changed=Cargo.toml");

    let mut files = vec![];
    rs_files(&src_dir, &mut files);
    let mut strings = BTreeSet::new();
    let mut ints = BTreeSet::new();
    let mut idents = BTreeSet::new();
    for f in &files {
        if let Ok(src) = fs::read(f) {
            scan(&src, &mut strings, &mut ints, &mut idents);
        }
    }
    // keep short tokens only; split longer literals at white space so their words survive
    let mut toks: BTreeSet<Vec<u8>> = BTreeSet::new();
    for s in &strings {
        if !s.is_empty() && s.len() <= 24 {
            toks.insert(s.clone());
        }
        if s.len() > 24 || s.iter().any(|b| b.is_ascii_whitespace()) {
            for w in s.split(|b| b.is_ascii_whitespace()) {
                if !w.is_empty() && w.len() <= 24 {
                    toks.insert(w.to_vec());
                }
            }
        }
    }
    let mut out = String::new();
    out.push_str("pub static TOKENS: &[&[u8]] = &[\n");
    for t in &toks {
        out.push_str("    &[");
        for b in t {
            out.push_str(&format!("{},", b));
        }
        out.push_str("],\n");
    }
    out.push_str("];\npub static INTS: &[u64] = &[\n");
    for v in &ints {
        out.push_str(&format!("    {},\n", v));
    }
    out.push_str("];\npub static IDENTS: &[&str] = &[\n");
    for id in &idents {
        // only names that can be io::ErrorKind variants are of use to the harness
        if id.chars().next().map(|c| c.is_ascii_uppercase()).unwrap_or(false) {
            out.push_str(&format!("    {:?},\n", id));
        }
    }
    out.push_str("];\n");
    let dest = PathBuf::from(std::env::var("OUT_DIR").unwrap()).join("dict_data.rs");
    fs::write(dest, out).unwrap();
}
