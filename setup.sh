#!/bin/sh
# setup_cmd: offline build of the harness from files on disk only.
set -eu
HERE=$(cd "$(dirname "$0")" && pwd)
export CARGO_NET_OFFLINE=true
cd "$HERE/harness"
cargo build --release --offline
"$HERE/harness/target/release/pv" selftest
