#!/bin/sh
# setup_cmd: offline build of the harness (stable toolchain) and, best effort, of the libFuzzer
# targets used by the thorough tier (nightly toolchain, cargo-fuzz) from files on disk only.
set -eu
HERE=$(cd "$(dirname "$0")" && pwd)
export CARGO_NET_OFFLINE=true
cd "$HERE/harness"
cargo build --release --offline
"$HERE/harness/target/release/pv" selftest
cd "$HERE/harness/fuzz"
if ! cargo +nightly fuzz build -s none >"$HERE/harness/fuzz-build.log.tmp" 2>&1; then
    echo "warning: libFuzzer targets did not build (the libFuzzer part of the thorough tier will report exit 2):"
    tail -5 "$HERE/harness/fuzz-build.log.tmp"
fi
